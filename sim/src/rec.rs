//! Recursive-verification universes: native verifier node and in-circuit verifier node for
//! uni-STARK and batch-STARK proofs, over a FRI parameter swarm. All real repo / p3 code.

use serde::{Deserialize, Serialize};

#[derive(Clone, Copy, Debug, PartialEq, Eq, Serialize, Deserialize)]
pub struct FriShape {
    pub log_blowup: usize,
    pub log_final_poly_len: usize,
    pub max_log_arity: usize,
    pub num_queries: usize,
    pub commit_pow_bits: usize,
    pub query_pow_bits: usize,
    pub cap_height: usize,
}
impl FriShape {
    pub fn testing() -> Self {
        Self { log_blowup: 2, log_final_poly_len: 0, max_log_arity: 1, num_queries: 2, commit_pow_bits: 1, query_pow_bits: 1, cap_height: 0 }
    }
    pub fn swarm(rng: &mut crate::core::prng::Rng) -> Self {
        Self {
            log_blowup: *rng.pick(&[1, 2, 2, 3]),
            log_final_poly_len: *rng.pick(&[0, 0, 1, 2]),
            max_log_arity: *rng.pick(&[1, 1, 2, 3, 4]),
            num_queries: *rng.pick(&[1, 2, 2, 3, 4]),
            commit_pow_bits: *rng.pick(&[0, 1, 3, 6]),
            query_pow_bits: *rng.pick(&[0, 1, 4, 8]),
            cap_height: *rng.pick(&[0, 0, 1, 2]),
        }
    }
    /// minimum trace height FRI needs for this shape
    pub fn min_height(&self) -> usize {
        1usize << (self.log_final_poly_len + 1)
    }
}

/// What the in-circuit verifier node observed.
#[derive(Clone, Debug, PartialEq, Eq)]
pub enum CircuitVerdict {
    Accept,
    BuildErr(String),
    BuildPanic(String),
    RunErr(String),
    RunPanic(String),
}
impl CircuitVerdict {
    pub fn accepts(&self) -> bool {
        matches!(self, CircuitVerdict::Accept)
    }
    pub fn panicked(&self) -> bool {
        matches!(self, CircuitVerdict::BuildPanic(_) | CircuitVerdict::RunPanic(_))
    }
    pub fn class(&self) -> &'static str {
        match self {
            CircuitVerdict::Accept => "accept",
            CircuitVerdict::BuildErr(_) => "build_err",
            CircuitVerdict::BuildPanic(_) => "build_panic",
            CircuitVerdict::RunErr(_) => "run_err",
            CircuitVerdict::RunPanic(_) => "run_panic",
        }
    }
    pub fn msg(&self) -> &str {
        match self {
            CircuitVerdict::Accept => "",
            CircuitVerdict::BuildErr(s) | CircuitVerdict::BuildPanic(s) | CircuitVerdict::RunErr(s) | CircuitVerdict::RunPanic(s) => s,
        }
    }
}

#[derive(Clone, Debug, Default)]
pub struct CircuitInfo {
    pub ops: usize,
    pub public_len: usize,
    pub private_len: usize,
    pub packed_public: Vec<u64>,
    pub packed_private: Vec<u64>,
}

/// Uniform access to a recursive-verification universe (implemented by `rec_universe!`).
pub trait RecUni: 'static {
    const NAME: &'static str;
    /// Smallest blow-up for which the circuit tables' degree-3 constraints fit: with a hiding PCS
    /// the randomised trace costs one more constraint degree, so blow-up 2 is a parameter error
    /// there (p3 rejects the honest proof natively with an OOD mismatch), not a shape to explore.
    const MIN_LOG_BLOWUP: usize;
    type Val: p3_field::PrimeField64;
    type UniProof: Serialize + serde::de::DeserializeOwned;
    type BatchProof: Serialize + serde::de::DeserializeOwned;
    type Common;
    type UniBuilt;
    type BatchBuilt;
    fn uni_prove_fib(s: &FriShape, log_n: usize) -> (Self::UniProof, Vec<Self::Val>);
    fn uni_native(s: &FriShape, proof: &Self::UniProof, pis: &[Self::Val]) -> Result<(), String>;
    fn uni_build(s: &FriShape, proof: &Self::UniProof, n_pis: usize) -> Result<Self::UniBuilt, CircuitVerdict>;
    fn uni_run(b: &Self::UniBuilt, proof: &Self::UniProof, pis: &[Self::Val]) -> (CircuitVerdict, CircuitInfo) {
        Self::uni_run_mut(b, proof, pis, None)
    }
    /// Like `uni_run`, optionally corrupting one position of the packed public (true) or private (false) vector.
    fn uni_run_mut(b: &Self::UniBuilt, proof: &Self::UniProof, pis: &[Self::Val], m: Option<(bool, usize, u64)>) -> (CircuitVerdict, CircuitInfo);
    /// Packed (public, private) vectors as base-field words, without running the circuit.
    fn uni_pack(b: &Self::UniBuilt, proof: &Self::UniProof, pis: &[Self::Val]) -> Result<(Vec<u64>, Vec<u64>), String>;
    fn batch_pack(b: &Self::BatchBuilt, proof: &Self::BatchProof, common: &Self::Common) -> Result<(Vec<u64>, Vec<u64>), String>;
    fn ext_degree() -> usize;
    fn batch_prove(s: &FriShape, p: &crate::gprog::Program, public_lanes: usize, alu_lanes: usize) -> Result<(Self::BatchProof, Self::Common, usize), String>;
    /// Native verdict on a (possibly faulted) batch proof; `common` is the verifier-side common
    /// data of the honest proof (only universes whose proofs do not carry their own use it).
    fn batch_native(s: &FriShape, proof: &Self::BatchProof, common: &Self::Common) -> Result<(), String>;
    /// Does this universe have a uni-STARK arm?
    const HAS_UNI: bool = true;
    fn common_for(proof: &Self::BatchProof, honest: &Self::Common) -> Self::Common;
    /// Number of public values the verifier supplies next to a batch proof (the circuit-prover
    /// tables have none; the custom-AIR universe does).
    fn batch_pv_len(_c: &Self::Common) -> usize {
        0
    }
    /// The verifier-side data with public value `pos` altered.
    fn batch_pv_fault(_c: &Self::Common, _pos: usize, _seed: u64) -> Option<Self::Common> {
        None
    }
    fn batch_build(s: &FriShape, proof: &Self::BatchProof, common: &Self::Common) -> Result<Self::BatchBuilt, CircuitVerdict>;
    fn batch_run(b: &Self::BatchBuilt, proof: &Self::BatchProof, common: &Self::Common) -> (CircuitVerdict, CircuitInfo) {
        Self::batch_run_mut(b, proof, common, None)
    }
    fn batch_run_mut(b: &Self::BatchBuilt, proof: &Self::BatchProof, common: &Self::Common, m: Option<(bool, usize, u64)>) -> (CircuitVerdict, CircuitInfo);
    fn gen_program(rng: &mut crate::core::prng::Rng, cfg: &crate::gprog::GenCfg) -> crate::gprog::Program;
}


/// Type plumbing per PCS flavour: `plain` = TwoAdicFriPcs over the plain Merkle MMCS (the test
/// parameters of p3_test_utils); `zk` = HidingFriPcs (randomised codewords, `is_zk`) over the plain
/// MMCS; `zksalt` = HidingFriPcs over the salted MerkleTreeHidingMmcs for inputs and commit phases.
macro_rules! rec_flavor_types {
    (plain) => {
        pub type RecMmcs = RecValMmcs<F, DIGEST_ELEMS, MyHash, MyCompress>;
        pub type InnerFri = FriProofTargets<F, Challenge, RecExtensionValMmcs<F, Challenge, DIGEST_ELEMS, RecMmcs>, InputProofTargets<F, Challenge, RecMmcs>, Witness<F>>;
    };
    (zk) => {
        pub type MyPcs = p3_fri::HidingFriPcs<F, Dft, MyMmcs, ChallengeMmcs, rand::rngs::SmallRng>;
        pub type MyConfig = StarkConfig<MyPcs, Challenge, Challenger>;
        pub type RecMmcs = RecValMmcs<F, DIGEST_ELEMS, MyHash, MyCompress>;
        pub type InnerFri = p3_recursion::pcs::fri::HidingFriProofTargets<F, Challenge, RecExtensionValMmcs<F, Challenge, DIGEST_ELEMS, RecMmcs>, InputProofTargets<F, Challenge, RecMmcs>, Witness<F>>;
    };
    (zksalt) => {
        pub const SALT_ELEMS: usize = 4;
        pub type MyMmcs = p3_merkle_tree::MerkleTreeHidingMmcs<<F as p3_field::Field>::Packing, <F as p3_field::Field>::Packing, MyHash, MyCompress, rand::rngs::SmallRng, 2, DIGEST_ELEMS, SALT_ELEMS>;
        pub type ChallengeMmcs = p3_commit::ExtensionMmcs<F, Challenge, MyMmcs>;
        pub type MyPcs = p3_fri::HidingFriPcs<F, Dft, MyMmcs, ChallengeMmcs, rand::rngs::SmallRng>;
        pub type MyConfig = StarkConfig<MyPcs, Challenge, Challenger>;
        pub type RecMmcs = p3_recursion::pcs::fri::RecValHidingMmcs<F, DIGEST_ELEMS, SALT_ELEMS, MyHash, MyCompress, rand::rngs::SmallRng>;
        pub type InnerFri = p3_recursion::pcs::fri::HidingFriProofTargets<F, Challenge, RecExtensionValMmcs<F, Challenge, DIGEST_ELEMS, RecMmcs>, InputProofTargets<F, Challenge, RecMmcs>, Witness<F>>;
    };
}
macro_rules! rec_flavor_pcs {
    (plain, $s:ident, $hash:ident, $compress:ident, $fri:ident) => {{
        let val_mmcs = MyMmcs::new($hash, $compress, $s.cap_height);
        let challenge_mmcs = ChallengeMmcs::new(val_mmcs.clone());
        let fri_params = $fri(challenge_mmcs);
        MyPcs::new(Dft::default(), val_mmcs, fri_params)
    }};
    (zk, $s:ident, $hash:ident, $compress:ident, $fri:ident) => {{
        let val_mmcs = MyMmcs::new($hash, $compress, $s.cap_height);
        let challenge_mmcs = ChallengeMmcs::new(val_mmcs.clone());
        let fri_params = $fri(challenge_mmcs);
        MyPcs::new(Dft::default(), val_mmcs, fri_params, 2, <rand::rngs::SmallRng as rand::SeedableRng>::seed_from_u64(0x5eed_0001))
    }};
    (zksalt, $s:ident, $hash:ident, $compress:ident, $fri:ident) => {{
        let val_mmcs = MyMmcs::new($hash, $compress, $s.cap_height, <rand::rngs::SmallRng as rand::SeedableRng>::seed_from_u64(0x5eed_0002));
        let challenge_mmcs = ChallengeMmcs::new(val_mmcs.clone());
        let fri_params = $fri(challenge_mmcs);
        MyPcs::new(Dft::default(), val_mmcs, fri_params, 2, <rand::rngs::SmallRng as rand::SeedableRng>::seed_from_u64(0x5eed_0001))
    }};
}
macro_rules! rec_flavor_min_blowup {
    (plain) => {
        1
    };
    ($other:ident) => {
        2
    };
}
macro_rules! rec_flavor_private {
    (plain, $r:expr, $ids:expr, $op:expr, $p2cfg:expr) => {
        set_fri_mmcs_private_data::<F, Challenge, ChallengeMmcs, MyMmcs, MyHash, MyCompress, DIGEST_ELEMS>($r, $ids, $op, $p2cfg)
    };
    (zk, $r:expr, $ids:expr, $op:expr, $p2cfg:expr) => {
        set_fri_mmcs_private_data::<F, Challenge, ChallengeMmcs, MyMmcs, MyHash, MyCompress, DIGEST_ELEMS>($r, $ids, &($op).1, $p2cfg)
    };
    (zksalt, $r:expr, $ids:expr, $op:expr, $p2cfg:expr) => {
        p3_recursion::pcs::set_hiding_salted_fri_mmcs_private_data::<F, Challenge, ChallengeMmcs, MyMmcs, DIGEST_ELEMS>($r, $ids, $op, $p2cfg)
    };
}

macro_rules! rec_universe {
    ($modname:ident, $uname:expr, $flavor:ident, $params:ident, $enable:ident, $p2params:ty, $p2cfg:expr, $defperm:path) => {
        pub mod $modname {
            use p3_batch_stark::CommonData;
            use p3_circuit::CircuitBuilder;
            use p3_circuit::ops::{generate_poseidon2_trace, generate_recompose_trace};
            use p3_circuit::test_utils::{FibonacciAir, generate_trace_rows};
            use p3_circuit_prover::common::get_airs_and_degrees_with_prep;
            use p3_circuit_prover::{BatchStarkProof, BatchStarkProver, CircuitProverData, ConstraintProfile, TablePacking};
            use p3_field::{PrimeCharacteristicRing, PrimeField64};
            use p3_lookup::logup::LogUpGadget;
            use p3_recursion::pcs::fri::{FriVerifierParams, InputProofTargets, MerkleCapTargets, RecValMmcs};
            use p3_recursion::pcs::{FriProofTargets, RecExtensionValMmcs, Witness, set_fri_mmcs_private_data};
            use p3_recursion::public_inputs::StarkVerifierInputsBuilder;
            use p3_recursion::verifier::verify_p3_batch_proof_circuit;
            use p3_recursion::verify_p3_uni_proof_circuit;
            use p3_test_utils::$params::*;

            use super::{CircuitInfo, CircuitVerdict, FriShape};
            use crate::core::pool::observe;

            pub const NAME: &str = $uname;
            pub type Cfg = MyConfig;
            pub type Val = F;
            pub type Ext = Challenge;
            pub type UniProof = p3_uni_stark::Proof<MyConfig>;
            pub type BatchProof = BatchStarkProof<MyConfig>;

            rec_flavor_types!($flavor);

            pub fn config(s: &FriShape) -> MyConfig {
                let perm = $defperm();
                let hash = MyHash::new(perm.clone());
                let compress = MyCompress::new(perm.clone());
                let shape = *s;
                let fri = move |mmcs: ChallengeMmcs| FriParameters {
                    log_blowup: shape.log_blowup,
                    log_final_poly_len: shape.log_final_poly_len,
                    max_log_arity: shape.max_log_arity,
                    num_queries: shape.num_queries,
                    commit_proof_of_work_bits: shape.commit_pow_bits,
                    query_proof_of_work_bits: shape.query_pow_bits,
                    mmcs,
                };
                let pcs = rec_flavor_pcs!($flavor, s, hash, compress, fri);
                MyConfig::new(pcs, Challenger::new(perm))
            }

            pub fn fri_verifier_params(s: &FriShape) -> FriVerifierParams {
                FriVerifierParams::with_mmcs(s.log_blowup, s.log_final_poly_len, s.commit_pow_bits, s.query_pow_bits, $p2cfg)
            }

            fn verifier_builder() -> CircuitBuilder<Challenge> {
                let mut cb = CircuitBuilder::new();
                cb.$enable::<$p2params, _>(generate_poseidon2_trace::<Challenge, $p2params>, $defperm());
                cb.enable_recompose::<F>(generate_recompose_trace::<F, Challenge>);
                cb
            }

            pub fn fe(x: &F) -> u64 {
                x.as_canonical_u64()
            }
            pub fn ext_words(x: &Challenge) -> Vec<u64> {
                crate::gprog::f_to_u64s::<F, Challenge>(x)
            }

            // ---------------------------------------------------------------- uni-STARK

            pub fn uni_prove_fib(s: &FriShape, log_n: usize) -> (UniProof, Vec<F>) {
                let n = 1usize << log_n;
                let trace = generate_trace_rows::<F>(0, 1, n);
                // x = F(n) in the field: last row right column
                let x = {
                    let (mut a, mut b) = (F::ZERO, F::ONE);
                    for _ in 1..n {
                        let c = a + b;
                        a = b;
                        b = c;
                    }
                    b
                };
                let pis = vec![F::ZERO, F::ONE, x];
                let proof = p3_uni_stark::prove(&config(s), &FibonacciAir {}, trace, &pis);
                (proof, pis)
            }

            pub fn uni_native(s: &FriShape, proof: &UniProof, pis: &[F]) -> Result<(), String> {
                match observe(|| p3_uni_stark::verify(&config(s), &FibonacciAir {}, proof, pis).map_err(|e| format!("{e:?}"))) {
                    Ok(r) => r,
                    Err(p) => Err(format!("panic: {p}")),
                }
            }

            pub struct UniBuilt {
                pub circuit: p3_circuit::Circuit<Challenge>,
                pub vi: StarkVerifierInputsBuilder<MyConfig, MerkleCapTargets<F, DIGEST_ELEMS>, InnerFri>,
                pub ids: Vec<p3_circuit::NonPrimitiveOpId>,
            }

            /// Build the verification circuit for the *shape* of `proof`.
            pub fn uni_build(s: &FriShape, proof: &UniProof, n_pis: usize) -> Result<UniBuilt, CircuitVerdict> {
                let cfg = config(s);
                let built = observe(|| {
                    let mut cb = verifier_builder();
                    let vi = StarkVerifierInputsBuilder::<MyConfig, MerkleCapTargets<F, DIGEST_ELEMS>, InnerFri>::allocate(&mut cb, proof, None, n_pis);
                    let ids = verify_p3_uni_proof_circuit::<
                        FibonacciAir,
                        MyConfig,
                        MerkleCapTargets<F, DIGEST_ELEMS>,
                        InputProofTargets<F, Challenge, RecMmcs>,
                        InnerFri,
                        _,
                        WIDTH,
                        RATE,
                    >(&cfg, &FibonacciAir {}, &mut cb, &vi.proof_targets, &vi.air_public_targets, &None, &fri_verifier_params(s), $p2cfg)
                    .map_err(|e| format!("{e:?}"))?;
                    let circuit = cb.build().map_err(|e| format!("{e:?}"))?;
                    Ok::<_, String>(UniBuilt { circuit, vi, ids })
                });
                match built {
                    Ok(Ok(x)) => Ok(x),
                    Ok(Err(e)) => Err(CircuitVerdict::BuildErr(e)),
                    Err(p) => Err(CircuitVerdict::BuildPanic(p)),
                }
            }

            /// Pack `proof`/`pis` into the built circuit and run it.
            pub fn uni_run(b: &UniBuilt, proof: &UniProof, pis: &[F]) -> (CircuitVerdict, CircuitInfo) {
                uni_run_mut(b, proof, pis, None)
            }

            fn corrupt(v: &mut [Challenge], pos: usize, seed: u64) {
                // a position that carries a base-field element gets a base-field delta (the change a
                // different native value would make); an extension position a full extension delta
                let mut rng = crate::core::prng::Rng::new(seed, "pos", pos as u64);
                if let Some(x) = v.get_mut(pos) {
                    let mut d = if crate::gprog::is_base::<F, Challenge>(x) {
                        Challenge::from(F::from_u64(1 + rng.below(F::ORDER_U64 - 1)))
                    } else {
                        crate::gprog::rand_f::<F, Challenge>(&mut rng)
                    };
                    if d == Challenge::ZERO {
                        d = Challenge::ONE;
                    }
                    *x += d;
                }
            }

            pub fn uni_run_mut(b: &UniBuilt, proof: &UniProof, pis: &[F], m: Option<(bool, usize, u64)>) -> (CircuitVerdict, CircuitInfo) {
                let mut info = CircuitInfo { ops: b.circuit.ops.len(), public_len: b.circuit.public_flat_len, private_len: b.circuit.private_flat_len, ..Default::default() };
                let ran = observe(|| {
                    let (mut pubs, mut privs) = b.vi.pack_values(pis, proof, &None);
                    if let Some((is_pub, pos, seed)) = m {
                        if is_pub { corrupt(&mut pubs, pos, seed) } else { corrupt(&mut privs, pos, seed) }
                    }
                    let pp: Vec<u64> = pubs.iter().flat_map(|x| ext_words(x)).collect();
                    let pq: Vec<u64> = privs.iter().flat_map(|x| ext_words(x)).collect();
                    let mut r = b.circuit.runner();
                    r.set_public_inputs(&pubs).map_err(|e| format!("{e:?}"))?;
                    r.set_private_inputs(&privs).map_err(|e| format!("{e:?}"))?;
                    rec_flavor_private!($flavor, &mut r, &b.ids, &proof.opening_proof, $p2cfg)
                        .map_err(|e| format!("private data: {e}"))?;
                    r.run().map_err(|e| format!("{e:?}"))?;
                    Ok::<_, String>((pp, pq))
                });
                match ran {
                    Ok(Ok((pp, pq))) => {
                        info.packed_public = pp;
                        info.packed_private = pq;
                        (CircuitVerdict::Accept, info)
                    }
                    Ok(Err(e)) => (CircuitVerdict::RunErr(e), info),
                    Err(p) => (CircuitVerdict::RunPanic(p), info),
                }
            }

            pub fn uni_circuit(s: &FriShape, proof: &UniProof, pis: &[F]) -> (CircuitVerdict, CircuitInfo) {
                match uni_build(s, proof, pis.len()) {
                    Ok(b) => uni_run(&b, proof, pis),
                    Err(v) => (v, CircuitInfo::default()),
                }
            }

            // ---------------------------------------------------------------- batch-STARK

            pub struct BatchSetup {
                pub proof: BatchProof,
                pub packing: TablePacking,
                pub ops: usize,
                pub common: CommonData<MyConfig>,
            }

            /// Honest batch proof of a base-field (D=1) circuit given as a G-prog program.
            pub fn batch_prove(s: &FriShape, p: &crate::gprog::Program, public_lanes: usize, alu_lanes: usize) -> Result<BatchSetup, String> {
                let mut b = CircuitBuilder::<F>::new();
                let built = crate::gprog::replay_into::<F, F>(p, &mut b, false);
                if !built.build_errors.is_empty() {
                    return Err(built.build_errors.join(";"));
                }
                let circuit = b.build().map_err(|e| format!("{e:?}"))?;
                let packing = TablePacking::new(public_lanes, alu_lanes).with_min_trace_height(s.min_height());
                let (airs_degrees, prim, npo) =
                    get_airs_and_degrees_with_prep::<MyConfig, _, 1>(&circuit, &packing, &[], &[], ConstraintProfile::Standard).map_err(|e| format!("{e:?}"))?;
                let (airs, degrees): (Vec<_>, Vec<usize>) = airs_degrees.into_iter().unzip();
                let pubs: Vec<F> = p.publics.iter().map(|v| F::from_u64(v[0])).collect();
                let privs: Vec<F> = p.privates.iter().map(|v| F::from_u64(v[0])).collect();
                let mut r = circuit.runner();
                r.set_public_inputs(&pubs).map_err(|e| format!("{e:?}"))?;
                r.set_private_inputs(&privs).map_err(|e| format!("{e:?}"))?;
                let traces = r.run().map_err(|e| format!("{e:?}"))?;
                let cfg = config(s);
                // a hiding PCS commits to randomised (doubled) traces: the degrees handed to the
                // prover data are the extended ones, as the repo's own ZK drivers do
                let degrees: Vec<usize> = degrees.iter().map(|d| d + p3_uni_stark::StarkGenericConfig::is_zk(&cfg)).collect();
                let pd = p3_batch_stark::ProverData::from_airs_and_degrees(&cfg, &airs, &degrees);
                let cpd = CircuitProverData::new(pd, prim, npo);
                let prover = BatchStarkProver::new(cfg).with_table_packing(packing.clone());
                let proof = prover.prove_all_tables(&traces, &cpd).map_err(|e| format!("{e:?}"))?;
                // `prove_all_tables` may reduce lanes and re-commit the preprocessed traces (fresh
                // salts under a hiding MMCS): the data the proof was made against is
                // `proof.stark_common`, which is also what the native verifier uses
                let hc = cpd.common_data();
                let common = CommonData::new(
                    proof.stark_common.preprocessed.as_ref().map(|g| p3_batch_stark::common::GlobalPreprocessed {
                        commitment: g.commitment.clone(),
                        instances: g.instances.clone(),
                        matrix_to_instance: g.matrix_to_instance.clone(),
                    }),
                    hc.lookups.clone(),
                );
                Ok(BatchSetup { proof, packing, ops: circuit.ops.len(), common })
            }

            pub fn batch_native(s: &FriShape, proof: &BatchProof) -> Result<(), String> {
                match observe(|| {
                    let prover = BatchStarkProver::new(config(s)).with_table_packing(proof.table_packing.clone());
                    prover.verify_all_tables::<F>(proof).map_err(|e| format!("{e:?}"))
                }) {
                    Ok(r) => r,
                    Err(p) => Err(format!("panic: {p}")),
                }
            }

            /// Common data handed to the in-circuit verifier: the (possibly faulted) preprocessed
            /// binding carried by the proof plus the lookup contexts of the honest common data
            /// (lookups are not part of the serialized proof).
            pub fn common_for(proof: &BatchProof, honest: &CommonData<MyConfig>) -> CommonData<MyConfig> {
                CommonData::new(
                    proof.stark_common.preprocessed.as_ref().map(|g| p3_batch_stark::common::GlobalPreprocessed {
                        commitment: g.commitment.clone(),
                        instances: g.instances.clone(),
                        matrix_to_instance: g.matrix_to_instance.clone(),
                    }),
                    honest.lookups.clone(),
                )
            }

            pub struct BatchBuilt {
                pub circuit: p3_circuit::Circuit<Challenge>,
                pub vi: p3_recursion::BatchStarkVerifierInputsBuilder<MyConfig, MerkleCapTargets<F, DIGEST_ELEMS>, InnerFri>,
                pub ids: Vec<p3_circuit::NonPrimitiveOpId>,
            }

            pub fn batch_build(s: &FriShape, proof: &BatchProof, common: &CommonData<MyConfig>) -> Result<BatchBuilt, CircuitVerdict> {
                let cfg = config(s);
                let lg = LogUpGadget::new();
                let built = observe(|| {
                    let mut cb = verifier_builder();
                    let (vi, ids) = verify_p3_batch_proof_circuit::<
                        MyConfig,
                        MerkleCapTargets<F, DIGEST_ELEMS>,
                        InputProofTargets<F, Challenge, RecMmcs>,
                        InnerFri,
                        LogUpGadget,
                        _,
                        WIDTH,
                        RATE,
                        1,
                    >(&cfg, &mut cb, proof, &fri_verifier_params(s), common, &lg, $p2cfg, &[])
                    .map_err(|e| format!("{e:?}"))?;
                    let circuit = cb.build().map_err(|e| format!("{e:?}"))?;
                    Ok::<_, String>(BatchBuilt { circuit, vi, ids })
                });
                match built {
                    Ok(Ok(x)) => Ok(x),
                    Ok(Err(e)) => Err(CircuitVerdict::BuildErr(e)),
                    Err(p) => Err(CircuitVerdict::BuildPanic(p)),
                }
            }

            pub fn batch_run(b: &BatchBuilt, proof: &BatchProof, common: &CommonData<MyConfig>) -> (CircuitVerdict, CircuitInfo) {
                batch_run_mut(b, proof, common, None)
            }

            pub fn batch_run_mut(b: &BatchBuilt, proof: &BatchProof, common: &CommonData<MyConfig>, m: Option<(bool, usize, u64)>) -> (CircuitVerdict, CircuitInfo) {
                let mut info = CircuitInfo { ops: b.circuit.ops.len(), public_len: b.circuit.public_flat_len, private_len: b.circuit.private_flat_len, ..Default::default() };
                let ran = observe(|| {
                    let n_tables = common.preprocessed.as_ref().map(|g| g.instances.len()).unwrap_or(0).max(3 + proof.non_primitives.len());
                    let pis: Vec<Vec<F>> = vec![vec![]; n_tables];
                    let (mut pubs, mut privs) = b.vi.pack_values(&pis, &proof.proof, common);
                    if let Some((is_pub, pos, seed)) = m {
                        if is_pub { corrupt(&mut pubs, pos, seed) } else { corrupt(&mut privs, pos, seed) }
                    }
                    let pp: Vec<u64> = pubs.iter().flat_map(|x| ext_words(x)).collect();
                    let pq: Vec<u64> = privs.iter().flat_map(|x| ext_words(x)).collect();
                    let mut r = b.circuit.runner();
                    r.set_public_inputs(&pubs).map_err(|e| format!("{e:?}"))?;
                    r.set_private_inputs(&privs).map_err(|e| format!("{e:?}"))?;
                    rec_flavor_private!($flavor, &mut r, &b.ids, &proof.proof.opening_proof, $p2cfg)
                        .map_err(|e| format!("private data: {e}"))?;
                    r.run().map_err(|e| format!("{e:?}"))?;
                    Ok::<_, String>((pp, pq))
                });
                match ran {
                    Ok(Ok((pp, pq))) => {
                        info.packed_public = pp;
                        info.packed_private = pq;
                        (CircuitVerdict::Accept, info)
                    }
                    Ok(Err(e)) => (CircuitVerdict::RunErr(e), info),
                    Err(p) => (CircuitVerdict::RunPanic(p), info),
                }
            }

            pub fn batch_circuit(s: &FriShape, proof: &BatchProof, common: &CommonData<MyConfig>) -> (CircuitVerdict, CircuitInfo) {
                match batch_build(s, proof, common) {
                    Ok(b) => batch_run(&b, proof, common),
                    Err(v) => (v, CircuitInfo::default()),
                }
            }

            pub struct U;
            impl super::RecUni for U {
                const NAME: &'static str = NAME;
                const MIN_LOG_BLOWUP: usize = rec_flavor_min_blowup!($flavor);
                type Val = F;
                type UniProof = UniProof;
                type BatchProof = BatchProof;
                type Common = CommonData<MyConfig>;
                type UniBuilt = UniBuilt;
                type BatchBuilt = BatchBuilt;
                fn uni_prove_fib(s: &FriShape, log_n: usize) -> (UniProof, Vec<F>) {
                    uni_prove_fib(s, log_n)
                }
                fn uni_native(s: &FriShape, proof: &UniProof, pis: &[F]) -> Result<(), String> {
                    uni_native(s, proof, pis)
                }
                fn uni_build(s: &FriShape, proof: &UniProof, n_pis: usize) -> Result<UniBuilt, CircuitVerdict> {
                    uni_build(s, proof, n_pis)
                }
                fn uni_run_mut(b: &UniBuilt, proof: &UniProof, pis: &[F], m: Option<(bool, usize, u64)>) -> (CircuitVerdict, CircuitInfo) {
                    uni_run_mut(b, proof, pis, m)
                }
                fn batch_prove(s: &FriShape, p: &crate::gprog::Program, public_lanes: usize, alu_lanes: usize) -> Result<(BatchProof, CommonData<MyConfig>, usize), String> {
                    match observe(|| batch_prove(s, p, public_lanes, alu_lanes)) {
                        Ok(Ok(b)) => Ok((b.proof, b.common, b.ops)),
                        Ok(Err(e)) => Err(e),
                        Err(p) => Err(format!("panic: {p}")),
                    }
                }
                fn batch_native(s: &FriShape, proof: &BatchProof, _common: &CommonData<MyConfig>) -> Result<(), String> {
                    batch_native(s, proof)
                }
                fn ext_degree() -> usize {
                    D
                }
                fn uni_pack(b: &UniBuilt, proof: &UniProof, pis: &[F]) -> Result<(Vec<u64>, Vec<u64>), String> {
                    observe(|| {
                        let (pubs, privs) = b.vi.pack_values(pis, proof, &None);
                        (pubs.iter().flat_map(|x| ext_words(x)).collect(), privs.iter().flat_map(|x| ext_words(x)).collect())
                    })
                }
                fn batch_pack(b: &BatchBuilt, proof: &BatchProof, common: &CommonData<MyConfig>) -> Result<(Vec<u64>, Vec<u64>), String> {
                    observe(|| {
                        let n_tables = common.preprocessed.as_ref().map(|g| g.instances.len()).unwrap_or(0).max(3 + proof.non_primitives.len());
                        let pis: Vec<Vec<F>> = vec![vec![]; n_tables];
                        let (pubs, privs) = b.vi.pack_values(&pis, &proof.proof, common);
                        (pubs.iter().flat_map(|x| ext_words(x)).collect(), privs.iter().flat_map(|x| ext_words(x)).collect())
                    })
                }
                fn common_for(proof: &BatchProof, honest: &CommonData<MyConfig>) -> CommonData<MyConfig> {
                    common_for(proof, honest)
                }
                fn batch_build(s: &FriShape, proof: &BatchProof, common: &CommonData<MyConfig>) -> Result<BatchBuilt, CircuitVerdict> {
                    batch_build(s, proof, common)
                }
                fn batch_run_mut(b: &BatchBuilt, proof: &BatchProof, common: &CommonData<MyConfig>, m: Option<(bool, usize, u64)>) -> (CircuitVerdict, CircuitInfo) {
                    batch_run_mut(b, proof, common, m)
                }
                fn gen_program(rng: &mut crate::core::prng::Rng, cfg: &crate::gprog::GenCfg) -> crate::gprog::Program {
                    crate::gprog::generate::<F, F>(rng, cfg)
                }
            }
        }
    };
}

rec_universe!(
    kb4,
    "U-KB4",
    plain,
    koala_bear_params,
    enable_poseidon2_perm,
    p3_poseidon2_circuit_air::KoalaBearD4Width16,
    p3_circuit::ops::Poseidon2Config::KOALA_BEAR_D4_W16,
    p3_koala_bear::default_koalabear_poseidon2_16
);
rec_universe!(
    bb4,
    "U-BB4",
    plain,
    baby_bear_params,
    enable_poseidon2_perm,
    p3_poseidon2_circuit_air::BabyBearD4Width16,
    p3_circuit::ops::Poseidon2Config::BABY_BEAR_D4_W16,
    p3_baby_bear::default_babybear_poseidon2_16
);
rec_universe!(
    kb4zk,
    "U-KB4-ZK",
    zk,
    koala_bear_params,
    enable_poseidon2_perm,
    p3_poseidon2_circuit_air::KoalaBearD4Width16,
    p3_circuit::ops::Poseidon2Config::KOALA_BEAR_D4_W16,
    p3_koala_bear::default_koalabear_poseidon2_16
);
rec_universe!(
    kb4zks,
    "U-KB4-ZKSALT",
    zksalt,
    koala_bear_params,
    enable_poseidon2_perm,
    p3_poseidon2_circuit_air::KoalaBearD4Width16,
    p3_circuit::ops::Poseidon2Config::KOALA_BEAR_D4_W16,
    p3_koala_bear::default_koalabear_poseidon2_16
);

/// Universe of run `idx`: three in ten runs each for the two plain universes, one each for the
/// hiding-PCS universes (plain and salted MMCS), two for the custom-AIR batch universe.
pub fn universe_of(idx: u64) -> &'static str {
    // diagnostic only (never set by a registered command): pin every run to one universe
    if let Ok(u) = std::env::var("VERIF_REC_UNIVERSE") {
        for name in ["U-KB4", "U-BB4", "U-KB4-ZK", "U-KB4-ZKSALT", "U-KB4-CUSTOM", "U-KB4-CUSTOM-ZK", "U-GL2R"] {
            if name == u {
                return name;
            }
        }
    }
    match idx % 12 {
        0 | 2 => "U-KB4",
        4 => "U-KB4-CUSTOM-ZK",
        1 | 3 | 5 => "U-BB4",
        6 => "U-KB4-ZK",
        7 => "U-KB4-ZKSALT",
        8 | 9 => "U-KB4-CUSTOM",
        _ => "U-GL2R",
    }
}

/// `with_rec_universe!(name, U, expr)`: evaluate `expr` with `U` bound to the universe type.
#[macro_export]
macro_rules! with_rec_universe {
    ($name:expr, $U:ident, $body:expr) => {
        match $name {
            "U-BB4" => {
                type $U = $crate::rec::bb4::U;
                $body
            }
            "U-KB4-ZK" => {
                type $U = $crate::rec::kb4zk::U;
                $body
            }
            "U-KB4-ZKSALT" => {
                type $U = $crate::rec::kb4zks::U;
                $body
            }
            "U-KB4-CUSTOM-ZK" => {
                type $U = $crate::reccustom::zk::U;
                $body
            }
            "U-KB4-CUSTOM" => {
                type $U = $crate::reccustom::plain::U;
                $body
            }
            "U-GL2R" => {
                type $U = $crate::rec::gl2::U;
                $body
            }
            _ => {
                type $U = $crate::rec::kb4::U;
                $body
            }
        }
    };
}

pub fn gl_default_perm() -> p3_goldilocks::Poseidon2Goldilocks<8> {
    let mut rng = <rand::rngs::SmallRng as rand::SeedableRng>::seed_from_u64(1);
    p3_goldilocks::Poseidon2Goldilocks::<8>::new_from_rng_128(&mut rng)
}
rec_universe!(
    gl2,
    "U-GL2R",
    plain,
    goldilocks_params,
    enable_poseidon2_perm_width_8,
    p3_circuit::ops::GoldilocksD2Width8,
    p3_circuit::ops::Poseidon2Config::GOLDILOCKS_D2_W8,
    crate::rec::gl_default_perm
);
