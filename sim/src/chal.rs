//! G-chal: challenger operation histories, replayed against the in-circuit `CircuitChallenger`
//! (building a circuit whose observed values are public inputs) and against the native
//! `DuplexChallenger` (the reference model). Six configurations, instantiated by macro.

use serde::{Deserialize, Serialize};

use crate::core::prng::Rng;

#[derive(Clone, Debug, Serialize, Deserialize, PartialEq, Eq)]
pub enum ChOp {
    /// observe one base element (canonical value)
    Observe(u64),
    /// observe one base element that is a compile-time constant of the circuit (the builder may
    /// fold it; zero is the interesting value: it is also what padding looks like)
    ObserveConst(u64),
    /// observe one extension element (basis coefficients)
    ObserveExt(Vec<u64>),
    Sample,
    SampleExt,
    SampleBits(usize),
    /// proof-of-work check with `bits`; the witness is ground natively at replay time;
    /// `bad` = use witness+1 instead (must fail iff native check fails)
    CheckPow(usize, bool),
    Clear,
    /// several base elements through the trait's `observe_slice` (may be empty)
    ObserveSlice(Vec<u64>),
    /// several extension elements through `observe_ext_slice` (may be empty)
    ObserveExtSlice(Vec<Vec<u64>>),
    /// `sample_ext_vec(count)` (count may be 0)
    SampleExtVec(usize),
}

#[derive(Clone, Debug, Serialize, Deserialize, PartialEq, Eq)]
pub struct History {
    pub ops: Vec<ChOp>,
}

pub fn gen_history(rng: &mut Rng, order: u64, d: usize, rate: usize, max_len: usize, allow_bad_pow: bool) -> History {
    let n = rng.range(1, max_len);
    let mut ops = Vec::new();
    let val = |rng: &mut Rng| match rng.below(4) {
        0 => rng.below(4),
        _ => rng.below(order),
    };
    while ops.len() < n {
        match rng.below(100) {
            0..=24 => ops.push(ChOp::Observe(val(rng))),
            25..=29 => ops.push(ChOp::ObserveConst(if rng.chance(2, 3) { 0 } else { val(rng) })),
            30..=37 => {
                // fill the buffer exactly to RATE, or to RATE-1, or a partial run
                let k = *rng.pick(&[rate, rate - 1, rate + 1, 2 * rate, 1, 3]);
                for _ in 0..k {
                    ops.push(ChOp::Observe(val(rng)));
                }
            }
            38..=47 => ops.push(ChOp::ObserveExt((0..d).map(|_| val(rng)).collect())),
            48..=67 => ops.push(ChOp::Sample),
            68..=72 => {
                // drain the output buffer exactly (RATE samples) or RATE+1
                let k = *rng.pick(&[rate, rate + 1, rate - 1]);
                for _ in 0..k {
                    ops.push(ChOp::Sample);
                }
            }
            73..=82 => ops.push(ChOp::SampleExt),
            83..=90 => ops.push(ChOp::SampleBits(rng.range(0, 20))),
            91..=95 => ops.push(ChOp::CheckPow(rng.range(0, 6), allow_bad_pow && rng.chance(1, 4))),
            _ => ops.push(ChOp::Clear),
        }
    }
    History { ops }
}

/// Rewrite runs of single-element operations into the slice / vector entry points of the
/// challenger trait (`observe_slice`, `observe_ext_slice`, `sample_ext_vec`), which must behave
/// like the unrolled sequence; occasionally insert an empty slice / zero-count vector (no-ops).
pub fn sliceify(rng: &mut Rng, h: &History) -> History {
    let mut ops = Vec::new();
    let mut i = 0;
    while i < h.ops.len() {
        if rng.chance(1, 24) {
            ops.push(match rng.below(3) {
                0 => ChOp::ObserveSlice(vec![]),
                1 => ChOp::ObserveExtSlice(vec![]),
                _ => ChOp::SampleExtVec(0),
            });
        }
        let run_len = |pred: &dyn Fn(&ChOp) -> bool| h.ops[i..].iter().take_while(|o| pred(o)).count();
        match &h.ops[i] {
            ChOp::Observe(_) => {
                let n = run_len(&|o| matches!(o, ChOp::Observe(_)));
                if rng.chance(1, 2) {
                    let take = rng.range(1, n);
                    ops.push(ChOp::ObserveSlice(h.ops[i..i + take].iter().map(|o| if let ChOp::Observe(v) = o { *v } else { 0 }).collect()));
                    i += take;
                    continue;
                }
            }
            ChOp::ObserveExt(_) => {
                let n = run_len(&|o| matches!(o, ChOp::ObserveExt(_)));
                if rng.chance(1, 2) {
                    let take = rng.range(1, n);
                    ops.push(ChOp::ObserveExtSlice(h.ops[i..i + take].iter().map(|o| if let ChOp::ObserveExt(v) = o { v.clone() } else { vec![] }).collect()));
                    i += take;
                    continue;
                }
            }
            ChOp::SampleExt => {
                let n = run_len(&|o| matches!(o, ChOp::SampleExt));
                if rng.chance(1, 2) {
                    let take = rng.range(1, n);
                    ops.push(ChOp::SampleExtVec(take));
                    i += take;
                    continue;
                }
            }
            _ => {}
        }
        ops.push(h.ops[i].clone());
        i += 1;
    }
    History { ops }
}

/// What the honest replay produced.
pub struct Replayed<EF> {
    /// tag -> native value expected in that tagged circuit wire
    pub expected: Vec<(String, EF)>,
    /// public input values in allocation order
    pub publics: Vec<EF>,
    /// does the native model say every PoW check in the history passes?
    pub native_pow_ok: bool,
    /// sponge-state coverage: (input_buffer len, output_buffer len, last op kind) triples reached
    pub states: Vec<(usize, usize, u8)>,
    pub permutations_estimate: usize,
}

#[macro_export]
macro_rules! chal_universe {
    ($modname:ident, $uname:expr, $f:ty, $ef:ty, $width:expr, $rate:expr, $permty:ty, $mkperm:expr, $enable:ident, $p2params:ty, $tracegen:expr, $chalcfg:ty, $newchal:expr, $wrap:expr, $coeff_ctl:expr) => {
        pub mod $modname {
            use p3_challenger::{CanObserve, CanSample, CanSampleBits, DuplexChallenger, FieldChallenger, GrindingChallenger};
            use p3_circuit::CircuitBuilder;
            use p3_field::{BasedVectorSpace, Field, PrimeCharacteristicRing, PrimeField64};
            use p3_recursion::challenger::CircuitChallenger;
            use p3_recursion::traits::RecursiveChallenger;
            use p3_symmetric::Permutation;

            use $crate::chal::{ChOp, History, Replayed};

            pub const NAME: &str = $uname;
            pub type F = $f;
            pub type EF = $ef;
            pub const WIDTH: usize = $width;
            pub const RATE: usize = $rate;
            pub type Perm = $permty;
            pub const D: usize = <EF as BasedVectorSpace<F>>::DIMENSION;

            pub fn make_perm() -> Perm {
                $mkperm
            }

            /// Builder with the given permutation closure (honest or a deviating wrapper).
            pub fn builder_with<P>(perm: P, recompose_table: bool) -> CircuitBuilder<EF>
            where
                P: Permutation<[F; WIDTH]> + Clone + Send + Sync + 'static,
            {
                let mut cb = CircuitBuilder::<EF>::new();
                cb.$enable::<$p2params, _>($tracegen, ($wrap)(perm));
                if recompose_table {
                    cb.enable_recompose::<F>(p3_circuit::ops::generate_recompose_trace::<F, EF>);
                }
                // base-field permutation inside a higher-degree circuit field: the hinted
                // coefficients of a decomposition are tied back through the recompose/coeff table
                // (documented requirement of `decompose_ext_to_base_coeffs` in that configuration)
                cb.set_recompose_coeff_ctl_for_decompose_links($coeff_ctl && recompose_table);
                cb
            }

            /// Every sampled wire is read by an ALU row, so that the value the run assigned to it is a
            /// committed, bus-checked cell of the proof (a wire nobody reads exists only in the
            /// runner's memory: the proof would attest the table's value, not the run's).
            fn consume(cb: &mut CircuitBuilder<EF>, t: p3_circuit::ExprId) {
                let _ = cb.mul(t, t);
            }

            fn ef_from(c: &[u64]) -> EF {
                $crate::gprog::f_from_u64s::<F, EF>(c)
            }

            /// Replay the history into the circuit builder and the native challenger.
            pub fn replay(h: &History, cb: &mut CircuitBuilder<EF>) -> Result<Replayed<EF>, String> {
                let mut native = DuplexChallenger::<F, Perm, WIDTH, RATE>::new(make_perm());
                let mut cc: CircuitChallenger<WIDTH, RATE, $chalcfg> = $newchal;
                let mut expected = Vec::new();
                let mut publics = Vec::new();
                let mut states = Vec::new();
                let mut native_pow_ok = true;
                let mut k = 0usize;
                // model of the buffers for coverage accounting only
                let (mut inb, mut outb) = (0usize, 0usize);
                let mut perms = 0usize;
                let mut obs = |inb: &mut usize, outb: &mut usize, perms: &mut usize| {
                    *outb = 0;
                    *inb += 1;
                    if *inb == RATE {
                        *inb = 0;
                        *outb = RATE;
                        *perms += 1;
                    }
                };
                let mut smp = |inb: &mut usize, outb: &mut usize, perms: &mut usize| {
                    if *inb > 0 || *outb == 0 {
                        *inb = 0;
                        *outb = RATE;
                        *perms += 1;
                    }
                    *outb -= 1;
                };
                for op in &h.ops {
                    match op {
                        ChOp::Observe(v) => {
                            let fv = F::from_u64(*v % F::ORDER_U64);
                            native.observe(fv);
                            let t = cb.public_input();
                            publics.push(EF::from(fv));
                            RecursiveChallenger::<F, EF>::observe(&mut cc, cb, t);
                            obs(&mut inb, &mut outb, &mut perms);
                            states.push((inb, outb, 0));
                        }
                        ChOp::ObserveConst(v) => {
                            let fv = F::from_u64(*v % F::ORDER_U64);
                            native.observe(fv);
                            let t = cb.alloc_const(EF::from(fv), "observed constant");
                            RecursiveChallenger::<F, EF>::observe(&mut cc, cb, t);
                            obs(&mut inb, &mut outb, &mut perms);
                            states.push((inb, outb, 7));
                        }
                        ChOp::ObserveExt(c) => {
                            let ev = ef_from(c);
                            native.observe_algebra_element(ev);
                            let t = cb.public_input();
                            publics.push(ev);
                            RecursiveChallenger::<F, EF>::observe_ext(&mut cc, cb, t);
                            for _ in 0..D {
                                obs(&mut inb, &mut outb, &mut perms);
                            }
                            states.push((inb, outb, 1));
                        }
                        ChOp::Sample => {
                            let nv: F = native.sample();
                            let t = RecursiveChallenger::<F, EF>::sample(&mut cc, cb);
                            let tag = format!("s{k}");
                            k += 1;
                            cb.tag(t, tag.clone()).map_err(|e| format!("{e:?}"))?;
                            consume(cb, t);
                            expected.push((tag, EF::from(nv)));
                            smp(&mut inb, &mut outb, &mut perms);
                            states.push((inb, outb, 2));
                        }
                        ChOp::SampleExt => {
                            let nv: EF = native.sample_algebra_element();
                            let t = RecursiveChallenger::<F, EF>::sample_ext(&mut cc, cb);
                            let tag = format!("s{k}");
                            k += 1;
                            // recomposed constant may be CSE'd with an earlier wire: duplicate tags on
                            // the same wire are fine, duplicate tag names are not
                            cb.tag(t, tag.clone()).map_err(|e| format!("{e:?}"))?;
                            consume(cb, t);
                            expected.push((tag, nv));
                            for _ in 0..D {
                                smp(&mut inb, &mut outb, &mut perms);
                            }
                            states.push((inb, outb, 3));
                        }
                        ChOp::SampleBits(n) => {
                            let nb = (*n).min(<F as p3_field::Field>::bits() - 1);
                            let nv: usize = native.sample_bits(nb);
                            let bits = RecursiveChallenger::<F, EF>::sample_bits(&mut cc, cb, nb).map_err(|e| format!("{e:?}"))?;
                            for (j, b) in bits.iter().enumerate() {
                                let tag = format!("s{k}");
                                k += 1;
                                cb.tag(*b, tag.clone()).map_err(|e| format!("{e:?}"))?;
                                consume(cb, *b);
                                expected.push((tag, EF::from_bool((nv >> j) & 1 == 1)));
                            }
                            smp(&mut inb, &mut outb, &mut perms);
                            states.push((inb, outb, 4));
                        }
                        ChOp::CheckPow(bits, bad) => {
                            if *bits == 0 {
                                // native: grind(0)/check_witness(0) leave the state unchanged
                                continue;
                            }
                            let mut w: F = native.clone().grind(*bits);
                            if *bad {
                                w += F::ONE;
                            }
                            let ok = native.check_witness(*bits, w);
                            native_pow_ok &= ok;
                            let t = cb.public_input();
                            publics.push(EF::from(w));
                            RecursiveChallenger::<F, EF>::check_pow_witness(&mut cc, cb, *bits, t).map_err(|e| format!("{e:?}"))?;
                            obs(&mut inb, &mut outb, &mut perms);
                            smp(&mut inb, &mut outb, &mut perms);
                            states.push((inb, outb, 5));
                        }
                        ChOp::ObserveSlice(vs) => {
                            let mut ts = Vec::new();
                            for v in vs {
                                let fv = F::from_u64(*v % F::ORDER_U64);
                                native.observe(fv);
                                ts.push(cb.public_input());
                                publics.push(EF::from(fv));
                                obs(&mut inb, &mut outb, &mut perms);
                            }
                            RecursiveChallenger::<F, EF>::observe_slice(&mut cc, cb, &ts);
                            states.push((inb, outb, 8));
                        }
                        ChOp::ObserveExtSlice(cs) => {
                            let mut ts = Vec::new();
                            for c in cs {
                                let ev = ef_from(c);
                                native.observe_algebra_element(ev);
                                ts.push(cb.public_input());
                                publics.push(ev);
                                for _ in 0..D {
                                    obs(&mut inb, &mut outb, &mut perms);
                                }
                            }
                            RecursiveChallenger::<F, EF>::observe_ext_slice(&mut cc, cb, &ts);
                            states.push((inb, outb, 9));
                        }
                        ChOp::SampleExtVec(n) => {
                            let ts = RecursiveChallenger::<F, EF>::sample_ext_vec(&mut cc, cb, *n);
                            if ts.len() != *n {
                                return Err(format!("sample_ext_vec({n}) returned {} targets", ts.len()));
                            }
                            for t in ts {
                                let nv: EF = native.sample_algebra_element();
                                let tag = format!("s{k}");
                                k += 1;
                                cb.tag(t, tag.clone()).map_err(|e| format!("{e:?}"))?;
                                consume(cb, t);
                                expected.push((tag, nv));
                                for _ in 0..D {
                                    smp(&mut inb, &mut outb, &mut perms);
                                }
                            }
                            states.push((inb, outb, 10));
                        }
                        ChOp::Clear => {
                            native = DuplexChallenger::<F, Perm, WIDTH, RATE>::new(make_perm());
                            RecursiveChallenger::<F, EF>::clear(&mut cc, cb);
                            inb = 0;
                            outb = 0;
                            states.push((0, 0, 6));
                        }
                    }
                }
                // residual state: one more sample
                let nv: F = native.sample();
                let t = RecursiveChallenger::<F, EF>::sample(&mut cc, cb);
                cb.tag(t, "residual".to_string()).map_err(|e| format!("{e:?}"))?;
                consume(cb, t);
                expected.push(("residual".to_string(), EF::from(nv)));
                Ok(Replayed { expected, publics, native_pow_ok, states, permutations_estimate: perms })
            }
        }
    };
}

chal_universe!(
    kb4,
    "KoalaBear-D4-W16-Poseidon2",
    p3_koala_bear::KoalaBear,
    p3_field::extension::BinomialExtensionField<p3_koala_bear::KoalaBear, 4>,
    16,
    8,
    p3_koala_bear::Poseidon2KoalaBear<16>,
    p3_koala_bear::default_koalabear_poseidon2_16(),
    enable_poseidon2_perm,
    p3_poseidon2_circuit_air::KoalaBearD4Width16,
    p3_circuit::ops::generate_poseidon2_trace::<EF, p3_poseidon2_circuit_air::KoalaBearD4Width16>,
    p3_circuit::ops::Poseidon2Config,
    CircuitChallenger::new_koalabear(),
    |p| p,
    false
);
chal_universe!(
    bb4,
    "BabyBear-D4-W16-Poseidon2",
    p3_baby_bear::BabyBear,
    p3_field::extension::BinomialExtensionField<p3_baby_bear::BabyBear, 4>,
    16,
    8,
    p3_baby_bear::Poseidon2BabyBear<16>,
    p3_baby_bear::default_babybear_poseidon2_16(),
    enable_poseidon2_perm,
    p3_poseidon2_circuit_air::BabyBearD4Width16,
    p3_circuit::ops::generate_poseidon2_trace::<EF, p3_poseidon2_circuit_air::BabyBearD4Width16>,
    p3_circuit::ops::Poseidon2Config,
    CircuitChallenger::new_babybear(),
    |p| p,
    false
);
chal_universe!(
    kb1,
    "KoalaBear-D1-W16-Poseidon2",
    p3_koala_bear::KoalaBear,
    p3_koala_bear::KoalaBear,
    16,
    8,
    p3_koala_bear::Poseidon2KoalaBear<16>,
    p3_koala_bear::default_koalabear_poseidon2_16(),
    enable_poseidon2_perm_base,
    p3_circuit::ops::KoalaBearD1Width16,
    p3_circuit::ops::generate_poseidon2_trace::<EF, p3_circuit::ops::KoalaBearD1Width16>,
    p3_circuit::ops::Poseidon2Config,
    CircuitChallenger::new_koalabear_base(),
    |p| p,
    false
);
chal_universe!(
    kb1p1,
    "KoalaBear-D1-W16-Poseidon1",
    p3_koala_bear::KoalaBear,
    p3_koala_bear::KoalaBear,
    16,
    8,
    p3_koala_bear::Poseidon1KoalaBear<16>,
    p3_koala_bear::default_koalabear_poseidon1_16(),
    enable_poseidon1_perm_base,
    p3_circuit::ops::poseidon1_perm::KoalaBearD1Width16,
    p3_circuit::ops::generate_poseidon1_trace::<EF, p3_circuit::ops::poseidon1_perm::KoalaBearD1Width16>,
    p3_circuit::ops::Poseidon1Config,
    CircuitChallenger::new_koalabear_poseidon1_base(),
    |p| p,
    false
);
chal_universe!(
    gl2,
    "Goldilocks-D2-W8-Poseidon2",
    p3_goldilocks::Goldilocks,
    p3_field::extension::BinomialExtensionField<p3_goldilocks::Goldilocks, 2>,
    8,
    4,
    p3_goldilocks::Poseidon2Goldilocks<8>,
    {
        use rand::SeedableRng;
        let mut rng = rand::rngs::SmallRng::seed_from_u64(1);
        p3_goldilocks::Poseidon2Goldilocks::<8>::new_from_rng_128(&mut rng)
    },
    enable_poseidon2_perm_width_8,
    p3_circuit::ops::GoldilocksD2Width8,
    p3_circuit::ops::generate_poseidon2_trace::<EF, p3_circuit::ops::GoldilocksD2Width8>,
    p3_circuit::ops::Poseidon2Config,
    CircuitChallenger::new_goldilocks(),
    |p| p,
    false
);
chal_universe!(
    gl2p1,
    "Goldilocks-D2-W8-Poseidon1",
    p3_goldilocks::Goldilocks,
    p3_field::extension::BinomialExtensionField<p3_goldilocks::Goldilocks, 2>,
    8,
    4,
    p3_goldilocks::poseidon1::Poseidon1Goldilocks<8>,
    p3_goldilocks::poseidon1::default_goldilocks_poseidon1_8(),
    enable_poseidon1_perm_width_8,
    p3_circuit::ops::poseidon1_perm::GoldilocksD2Width8,
    p3_circuit::ops::generate_poseidon1_trace::<EF, p3_circuit::ops::poseidon1_perm::GoldilocksD2Width8>,
    p3_circuit::ops::Poseidon1Config,
    CircuitChallenger::new_goldilocks_poseidon1(),
    |p| p,
    false
);
chal_universe!(
    kb5q1,
    "KoalaBear-Quintic-D1challenger-W16-Poseidon2",
    p3_koala_bear::KoalaBear,
    p3_field::extension::QuinticTrinomialExtensionField<p3_koala_bear::KoalaBear>,
    16,
    8,
    p3_koala_bear::Poseidon2KoalaBear<16>,
    p3_koala_bear::default_koalabear_poseidon2_16(),
    enable_poseidon2_perm_base,
    p3_circuit::ops::KoalaBearD1Width16,
    p3_circuit::ops::generate_poseidon2_trace::<EF, p3_circuit::ops::KoalaBearD1Width16>,
    p3_circuit::ops::Poseidon2Config,
    CircuitChallenger::new_koalabear_base(),
    |p| p3_test_utils::LiftPermToQuintic::<F, _, 16>::new(p),
    true
);
chal_universe!(
    kb5q1p1,
    "KoalaBear-Quintic-D1challenger-W16-Poseidon1",
    p3_koala_bear::KoalaBear,
    p3_field::extension::QuinticTrinomialExtensionField<p3_koala_bear::KoalaBear>,
    16,
    8,
    p3_koala_bear::Poseidon1KoalaBear<16>,
    p3_koala_bear::default_koalabear_poseidon1_16(),
    enable_poseidon1_perm_base,
    p3_circuit::ops::poseidon1_perm::KoalaBearD1Width16,
    p3_circuit::ops::generate_poseidon1_trace::<EF, p3_circuit::ops::poseidon1_perm::KoalaBearD1Width16>,
    p3_circuit::ops::Poseidon1Config,
    CircuitChallenger::new_koalabear_poseidon1_base(),
    |p| p3_test_utils::LiftPermToQuintic::<F, _, 16>::new(p),
    true
);
