//! The honest pipeline: compiler node → runner → key generation → prover → verifier node, every
//! stage under `observe` so that a panic is an observation, not a crash of the run.

use p3_circuit::tables::Traces;
use p3_circuit::{Circuit, CircuitBuilder};

use crate::core::pool::observe;
use crate::core::prng::Digest;
use crate::gprog::{self, Program, f_from_u64s, f_to_u64s};
use crate::uni::{BuilderOpts, CircuitUni, KeyInfo, ProverCfg, Tamper, verifier_node};

#[derive(Clone, Debug, PartialEq, Eq)]
pub enum Stage {
    Build,
    Run,
    Keygen,
    Prove,
    Verify,
}
impl Stage {
    pub fn name(&self) -> &'static str {
        match self {
            Stage::Build => "build",
            Stage::Run => "run",
            Stage::Keygen => "keygen",
            Stage::Prove => "prove",
            Stage::Verify => "verify",
        }
    }
}

#[derive(Clone, Debug)]
pub struct Fail {
    pub stage: Stage,
    pub msg: String,
    pub panicked: bool,
}

pub fn flat<T>(r: Result<Result<T, String>, String>, stage: Stage) -> Result<T, Fail> {
    match r {
        Ok(Ok(t)) => Ok(t),
        Ok(Err(msg)) => Err(Fail { stage, msg, panicked: false }),
        Err(msg) => Err(Fail { stage, msg, panicked: true }),
    }
}

pub fn build_circuit<U: CircuitUni>(p: &Program, opts: BuilderOpts, tag: bool) -> Result<Circuit<U::EF>, Fail> {
    let mut b: CircuitBuilder<U::EF> = U::builder(opts);
    let built = flat(
        observe(|| {
            let built = gprog::replay_into::<U::BF, U::EF>(p, &mut b, tag);
            if built.build_errors.is_empty() { Ok(()) } else { Err(built.build_errors.join(";")) }
        }),
        Stage::Build,
    );
    built?;
    flat(observe(|| b.build().map_err(|e| format!("{e:?}"))), Stage::Build)
}

pub fn run_circuit<U: CircuitUni>(c: &Circuit<U::EF>, p: &Program) -> Result<Traces<U::EF>, Fail> {
    let pubs: Vec<U::EF> = p.publics.iter().map(|v| f_from_u64s::<U::BF, U::EF>(v)).collect();
    let privs: Vec<U::EF> = p.privates.iter().map(|v| f_from_u64s::<U::BF, U::EF>(v)).collect();
    flat(
        observe(|| {
            let mut r = c.runner();
            r.set_public_inputs(&pubs).map_err(|e| format!("{e:?}"))?;
            r.set_private_inputs(&privs).map_err(|e| format!("{e:?}"))?;
            r.run().map_err(|e| format!("{e:?}"))
        }),
        Stage::Run,
    )
}

pub fn keygen<U: CircuitUni>(c: &Circuit<U::EF>, cfg: &ProverCfg) -> Result<(U::Keys, KeyInfo), Fail> {
    flat(
        observe(|| {
            let k = U::keygen(c, cfg)?;
            let i = U::key_info(&k);
            Ok((k, i))
        }),
        Stage::Keygen,
    )
}

pub fn prove<U: CircuitUni>(
    keys: &U::Keys,
    traces: &Traces<U::EF>,
    cfg: &ProverCfg,
    tamper: Option<Tamper<U::BF>>,
) -> Result<U::Proof, Fail> {
    flat(observe(|| U::prove(keys, traces, cfg, tamper)), Stage::Prove)
}

pub fn verify<U: CircuitUni>(proof: &U::Proof, cfg: &ProverCfg, commitment: &[u64]) -> Result<(), Fail> {
    flat(observe(|| verifier_node::<U>(proof, cfg, commitment)), Stage::Verify)
}

pub fn traces_digest<U: CircuitUni>(t: &Traces<U::EF>) -> u64 {
    let mut d = Digest::new();
    let n = t.witness_trace.num_rows();
    d.u64(n as u64);
    for i in 0..n {
        for x in f_to_u64s::<U::BF, U::EF>(t.witness_trace.get_value(p3_circuit::WitnessId(i as u32)).unwrap()) {
            d.u64(x);
        }
    }
    for (i, v) in t.const_trace.index.iter().zip(t.const_trace.values.iter()) {
        d.u64(i.0 as u64);
        f_to_u64s::<U::BF, U::EF>(v).iter().for_each(|x| d.u64(*x));
    }
    for (i, v) in t.public_trace.index.iter().zip(t.public_trace.values.iter()) {
        d.u64(i.0 as u64);
        f_to_u64s::<U::BF, U::EF>(v).iter().for_each(|x| d.u64(*x));
    }
    for ((k, vals), idx) in t.alu_trace.op_kind.iter().zip(t.alu_trace.values.iter()).zip(t.alu_trace.indices.iter()) {
        d.u64(*k as u64);
        for v in vals {
            f_to_u64s::<U::BF, U::EF>(v).iter().for_each(|x| d.u64(*x));
        }
        for w in idx {
            d.u64(w.0 as u64);
        }
    }
    let mut np: Vec<(String, usize)> = t.non_primitive_traces.iter().map(|(k, v)| (format!("{k:?}"), v.rows())).collect();
    np.sort();
    for (k, r) in np {
        d.str(&k);
        d.u64(r as u64);
    }
    d.finish()
}

pub fn proof_digest<U: CircuitUni>(p: &U::Proof) -> u64 {
    let bytes = serde_json::to_vec(p).unwrap_or_default();
    crate::core::prng::fnv64(&bytes)
}
