//! Bus accountant (C09 monitor): recomputes, from the *final* preprocessed columns of the
//! primitive tables (Const/Public `[mult, idx]`, ALU 13-column lanes), who creates and who reads
//! every witness slot. Written against the documented column layout, not against the code that
//! fills it. Circuits with non-primitive tables are additionally cross-checked by p3's own multiset
//! checker (`with_debug_lookups`) in the honest prover arm.

use std::collections::BTreeMap;

use crate::uni::KeyInfo;

#[derive(Clone, Debug, Default)]
pub struct SlotAcct {
    /// (table, multiplicity) of every creator entry
    pub creators: Vec<(&'static str, u64)>,
    pub readers: u64,
}

#[derive(Clone, Debug, PartialEq, Eq, PartialOrd, Ord)]
pub struct Issue {
    /// stable class: e.g. "two_creators:public+public", "creator_mult_mismatch", "reads_without_creator", "floating_operand:mul_add:c"
    pub class: String,
    pub slot: u64,
}

pub struct Acct {
    pub slots: BTreeMap<u64, SlotAcct>,
    pub issues: Vec<Issue>,
    pub alu_rows: usize,
}

/// `order` = base-field modulus; `d` = extension degree used for D-scaled indices.
pub fn account(info: &KeyInfo, order: u64, d: usize, npo_present: bool) -> Acct {
    let mut slots: BTreeMap<u64, SlotAcct> = BTreeMap::new();
    let mut issues = Vec::new();
    let neg1 = order - 1;
    let mut entry = |slots: &mut BTreeMap<u64, SlotAcct>, table: &'static str, idx: u64, mult: u64| {
        let slot = idx / d as u64;
        let s = slots.entry(slot).or_default();
        if mult == 0 {
        } else if mult == neg1 {
            s.readers += 1;
        } else if mult < order / 2 {
            s.creators.push((table, mult));
        } else {
            // negative other than -1: counts as (order - mult) reads
            s.readers += order - mult;
        }
    };
    let cst = &info.primitive_cols[0];
    for ch in cst.chunks_exact(2) {
        // a Const row with multiplicity 0 is a creator nobody reads: still a creator entry for
        // the "exactly one creator" rule only if somebody reads the slot; record with mult 0
        if ch[0] == 0 {
            slots.entry(ch[1] / d as u64).or_default().creators.push(("const", 0));
        } else {
            entry(&mut slots, "const", ch[1], ch[0]);
        }
    }
    let publ = &info.primitive_cols[1];
    for ch in publ.chunks_exact(2) {
        if ch[0] == 0 {
            slots.entry(ch[1] / d as u64).or_default().creators.push(("public", 0));
        } else {
            entry(&mut slots, "public", ch[1], ch[0]);
        }
    }
    let alu = &info.primitive_cols[2];
    let mut alu_rows = 0;
    let mut zero_entries: Vec<(String, u64)> = Vec::new();
    let mulf = |a: u64, b: u64| -> u64 { ((a as u128 * b as u128) % order as u128) as u64 };
    for r in alu.chunks_exact(13) {
        let (mult_a, s_add, s_bool, s_muladd, s_horner) = (r[0], r[1], r[2], r[3], r[4]);
        let (a_idx, b_idx, c_idx, out_idx, mult_b, mult_out, a_rd, c_rd) = (r[5], r[6], r[7], r[8], r[9], r[10], r[11], r[12]);
        if mult_a == 0 {
            continue; // padding / dummy row
        }
        alu_rows += 1;
        let kind = if s_bool == 1 {
            "bool"
        } else if s_muladd == 1 {
            "mul_add"
        } else if s_horner == 1 {
            "horner"
        } else if s_add == 1 {
            "add"
        } else {
            "mul"
        };
        let eff_a = mulf(mult_a, a_rd);
        let eff_c = mulf(mult_a, c_rd);
        entry(&mut slots, "alu", a_idx, eff_a);
        entry(&mut slots, "alu", b_idx, mult_b);
        entry(&mut slots, "alu", out_idx, mult_out);
        entry(&mut slots, "alu", c_idx, eff_c);
        // operands the relation depends on must take part in the bus
        // An entry with effective multiplicity 0 is either a creator nobody reads (fine: no
        // other table sees the slot) or an operand that floats free of a slot others do see.
        if eff_a == 0 && !(kind == "bool" && a_idx == out_idx) {
            zero_entries.push((format!("floating_operand:{kind}:a"), a_idx / d as u64));
        }
        if (kind == "mul_add" || kind == "horner") && eff_c == 0 {
            zero_entries.push((format!("floating_operand:{kind}:c"), c_idx / d as u64));
        }
        if mult_b == 0 && kind != "bool" {
            zero_entries.push((format!("floating_operand:{kind}:b"), b_idx / d as u64));
        }
        if mult_out == 0 {
            zero_entries.push((format!("floating_operand:{kind}:out"), out_idx / d as u64));
        }
    }
    for (class, slot) in zero_entries {
        let participates = slots.get(&slot).is_some_and(|s| s.readers > 0 || s.creators.iter().any(|c| c.1 > 0));
        if participates {
            issues.push(Issue { class, slot });
        }
    }
    if !npo_present {
        for (slot, s) in &slots {
            let live: Vec<&(&'static str, u64)> = s.creators.iter().collect();
            let total_mult: u64 = s.creators.iter().map(|c| c.1).sum();
            if s.readers > 0 && live.is_empty() {
                issues.push(Issue { class: "reads_without_creator".into(), slot: *slot });
            } else if live.len() > 1 && (s.readers > 0 || total_mult > 0) {
                let mut names: Vec<&str> = live.iter().map(|c| c.0).collect();
                names.sort();
                if names.iter().any(|n| *n != names[0]) {
                    names.dedup();
                } else {
                    names.truncate(2);
                }
                issues.push(Issue { class: format!("two_creators:{}", names.join("+")), slot: *slot });
            } else if total_mult != s.readers {
                issues.push(Issue { class: "creator_mult_mismatch".into(), slot: *slot });
            }
        }
    }
    issues.sort();
    Acct { slots, issues, alu_rows }
}

pub fn issue_classes(a: &Acct) -> Vec<String> {
    let mut v: Vec<String> = a.issues.iter().map(|i| i.class.clone()).collect();
    v.sort();
    v.dedup();
    v
}
