//! G-prog: builder-call histories (programs written against `CircuitBuilder`), their generator,
//! the reference interpreter (`RefSem`, written only against `p3_field` arithmetic) and the
//! replayer that drives the real builder. A program is data (serde), so a replay file contains it.

use p3_circuit::{CircuitBuilder, ExprId};
use p3_field::{BasedVectorSpace, ExtensionField, Field, PrimeCharacteristicRing, PrimeField64};
use serde::{Deserialize, Serialize};

use crate::core::prng::Rng;

/// One call against the builder. `usize` operands index the arena of values returned so far.
#[derive(Clone, Debug, Serialize, Deserialize, PartialEq, Eq, Hash)]
pub enum Call {
    Const(Vec<u64>),
    Public,
    Private,
    Add(usize, usize),
    Sub(usize, usize),
    Mul(usize, usize),
    Div(usize, usize),
    MulAdd(usize, usize, usize),
    /// acc, alpha, p_at_z, p_at_x : acc*alpha + p_at_z - p_at_x
    Horner(usize, usize, usize, usize),
    AssertBool(usize),
    Select(usize, usize, usize),
    Connect(usize, usize),
    AssertZero(usize),
    MulMany(Vec<usize>),
    InnerProduct(Vec<usize>, Vec<usize>),
    ExpPow2(usize, usize),
    /// x, n_bits -> n_bits values
    DecomposeBits(usize, usize),
    /// bits -> 1 value (asserts each bit boolean)
    ReconstructBits(Vec<usize>),
    /// D base coefficients -> 1 value; mode 0 = default, 1 = with coeff lookups, 2 = via ALU
    RecomposeExt(Vec<usize>, u8),
    /// x -> D coefficient values
    DecomposeExt(usize),
}

impl Call {
    pub fn kind(&self) -> &'static str {
        match self {
            Call::Const(_) => "const",
            Call::Public => "public",
            Call::Private => "private",
            Call::Add(..) => "add",
            Call::Sub(..) => "sub",
            Call::Mul(..) => "mul",
            Call::Div(..) => "div",
            Call::MulAdd(..) => "mul_add",
            Call::Horner(..) => "horner",
            Call::AssertBool(_) => "assert_bool",
            Call::Select(..) => "select",
            Call::Connect(..) => "connect",
            Call::AssertZero(_) => "assert_zero",
            Call::MulMany(_) => "mul_many",
            Call::InnerProduct(..) => "inner_product",
            Call::ExpPow2(..) => "exp_pow2",
            Call::DecomposeBits(..) => "decompose_bits",
            Call::ReconstructBits(_) => "reconstruct_bits",
            Call::RecomposeExt(..) => "recompose_ext",
            Call::DecomposeExt(_) => "decompose_ext",
        }
    }
    pub fn operands(&self) -> Vec<usize> {
        match self {
            Call::Const(_) | Call::Public | Call::Private => vec![],
            Call::Add(a, b) | Call::Sub(a, b) | Call::Mul(a, b) | Call::Div(a, b) => vec![*a, *b],
            Call::Connect(a, b) => vec![*a, *b],
            Call::MulAdd(a, b, c) | Call::Select(a, b, c) => vec![*a, *b, *c],
            Call::Horner(a, b, c, d) => vec![*a, *b, *c, *d],
            Call::AssertBool(a) | Call::AssertZero(a) | Call::DecomposeExt(a) => vec![*a],
            Call::ExpPow2(a, _) | Call::DecomposeBits(a, _) => vec![*a],
            Call::MulMany(v) | Call::ReconstructBits(v) | Call::RecomposeExt(v, _) => v.clone(),
            Call::InnerProduct(a, b) => a.iter().chain(b.iter()).copied().collect(),
        }
    }
    fn map_operands(&mut self, f: &dyn Fn(usize) -> usize) {
        match self {
            Call::Const(_) | Call::Public | Call::Private => {}
            Call::Add(a, b) | Call::Sub(a, b) | Call::Mul(a, b) | Call::Div(a, b) | Call::Connect(a, b) => {
                *a = f(*a);
                *b = f(*b);
            }
            Call::MulAdd(a, b, c) | Call::Select(a, b, c) => {
                *a = f(*a);
                *b = f(*b);
                *c = f(*c);
            }
            Call::Horner(a, b, c, d) => {
                *a = f(*a);
                *b = f(*b);
                *c = f(*c);
                *d = f(*d);
            }
            Call::AssertBool(a) | Call::AssertZero(a) | Call::DecomposeExt(a) => *a = f(*a),
            Call::ExpPow2(a, _) | Call::DecomposeBits(a, _) => *a = f(*a),
            Call::MulMany(v) | Call::ReconstructBits(v) | Call::RecomposeExt(v, _) => {
                for x in v.iter_mut() {
                    *x = f(*x);
                }
            }
            Call::InnerProduct(a, b) => {
                for x in a.iter_mut().chain(b.iter_mut()) {
                    *x = f(*x);
                }
            }
        }
    }
    /// Number of arena values this call returns, given the extension degree.
    pub fn n_out(&self, d: usize) -> usize {
        match self {
            Call::AssertBool(_) | Call::Connect(..) | Call::AssertZero(_) => 0,
            Call::DecomposeBits(_, n) => *n,
            Call::DecomposeExt(_) => d,
            _ => 1,
        }
    }
}

#[derive(Clone, Debug, Serialize, Deserialize, PartialEq, Eq)]
pub struct Program {
    pub calls: Vec<Call>,
    /// values of public inputs (basis coefficients as canonical u64), in allocation order
    pub publics: Vec<Vec<u64>>,
    pub privates: Vec<Vec<u64>>,
}

pub fn f_from_u64s<BF: PrimeField64, EF: ExtensionField<BF>>(c: &[u64]) -> EF {
    let d = <EF as BasedVectorSpace<BF>>::DIMENSION;
    let mut v = vec![BF::ZERO; d];
    for (i, x) in c.iter().enumerate().take(d) {
        v[i] = BF::from_u64(*x % BF::ORDER_U64);
    }
    EF::from_basis_coefficients_slice(&v).unwrap()
}
pub fn f_to_u64s<BF: PrimeField64, EF: ExtensionField<BF>>(x: &EF) -> Vec<u64> {
    <EF as BasedVectorSpace<BF>>::as_basis_coefficients_slice(x)
        .iter()
        .map(|c| c.as_canonical_u64())
        .collect()
}
pub fn is_base<BF: PrimeField64, EF: ExtensionField<BF>>(x: &EF) -> bool {
    <EF as BasedVectorSpace<BF>>::as_basis_coefficients_slice(x)[1..]
        .iter()
        .all(|c| *c == BF::ZERO)
}
pub fn rand_f<BF: PrimeField64, EF: ExtensionField<BF>>(rng: &mut Rng) -> EF {
    let d = <EF as BasedVectorSpace<BF>>::DIMENSION;
    let v: Vec<u64> = (0..d).map(|_| rng.below(BF::ORDER_U64)).collect();
    f_from_u64s::<BF, EF>(&v)
}

/// Outcome of the reference interpreter.
#[derive(Clone, Debug)]
pub struct RefOut<EF> {
    /// value of each arena slot; None if undefined (depends on a division by zero)
    pub vals: Vec<Option<EF>>,
    /// every asserted relation holds and every divisor is non-zero
    pub sat: bool,
    /// some divisor was zero
    pub div_zero: bool,
    /// a decomposition precondition failed (value does not fit the requested bits)
    pub decomp_unfit: bool,
    /// a documented precondition of a builder call does not hold on these inputs (recomposition
    /// coefficient that is not a base-field element); the expression's value is then unspecified
    pub precond_violated: bool,
    /// description of the first violated relation
    pub first_violation: Option<String>,
    /// per-call: the arena index of its first output
    pub out_base: Vec<usize>,
}

/// The reference interpreter: structural recursion using only `p3_field` arithmetic.
pub fn ref_eval<BF: PrimeField64, EF: ExtensionField<BF>>(p: &Program) -> RefOut<EF> {
    ref_eval_hinted::<BF, EF>(p, &std::collections::BTreeMap::new())
}

/// Like `ref_eval`, but the outputs of `decompose_ext_to_base_coeffs` listed in `hinted` (value
/// index -> value) are taken as given, the way the builder treats them: hinted witnesses tied to
/// `x` by the recomposition constraint only. That they are base-field elements is not a relation
/// the builder asserts (the gadget's canonicity is C12's subject), so a judge of *compilation*
/// must not count it.
pub fn ref_eval_hinted<BF: PrimeField64, EF: ExtensionField<BF>>(p: &Program, hinted: &std::collections::BTreeMap<usize, EF>) -> RefOut<EF> {
    let d = <EF as BasedVectorSpace<BF>>::DIMENSION;
    let mut vals: Vec<Option<EF>> = Vec::new();
    let mut sat = true;
    let mut div_zero = false;
    let mut decomp_unfit = false;
    let mut precond_violated = false;
    let mut first_violation = None;
    let mut out_base = Vec::with_capacity(p.calls.len());
    let (mut npub, mut npriv) = (0usize, 0usize);
    let mut fail = |sat: &mut bool, fv: &mut Option<String>, msg: String| {
        if *sat {
            *fv = Some(msg);
        }
        *sat = false;
    };
    let basis = |i: usize| -> EF {
        let mut v = vec![BF::ZERO; d];
        v[i] = BF::ONE;
        EF::from_basis_coefficients_slice(&v).unwrap()
    };
    for (ci, c) in p.calls.iter().enumerate() {
        out_base.push(vals.len());
        let g = |i: usize| -> Option<EF> { vals[i] };
        match c {
            Call::Const(v) => vals.push(Some(f_from_u64s::<BF, EF>(v))),
            Call::Public => {
                vals.push(Some(f_from_u64s::<BF, EF>(&p.publics[npub])));
                npub += 1;
            }
            Call::Private => {
                vals.push(Some(f_from_u64s::<BF, EF>(&p.privates[npriv])));
                npriv += 1;
            }
            Call::Add(a, b) => vals.push(g(*a).zip(g(*b)).map(|(x, y)| x + y)),
            Call::Sub(a, b) => vals.push(g(*a).zip(g(*b)).map(|(x, y)| x - y)),
            Call::Mul(a, b) => vals.push(g(*a).zip(g(*b)).map(|(x, y)| x * y)),
            Call::Div(a, b) => {
                let r = match (g(*a), g(*b)) {
                    (Some(x), Some(y)) => {
                        if y == EF::ZERO {
                            div_zero = true;
                            fail(&mut sat, &mut first_violation, format!("call {ci}: division by zero"));
                            None
                        } else {
                            Some(x * y.inverse())
                        }
                    }
                    _ => None,
                };
                vals.push(r);
            }
            Call::MulAdd(a, b, c3) => {
                vals.push(g(*a).zip(g(*b)).zip(g(*c3)).map(|((x, y), z)| x * y + z))
            }
            Call::Horner(acc, al, pz, px) => vals.push(
                g(*acc)
                    .zip(g(*al))
                    .zip(g(*pz))
                    .zip(g(*px))
                    .map(|(((a, b), c), d)| a * b + c - d),
            ),
            Call::AssertBool(a) => {
                if let Some(x) = g(*a) {
                    if x != EF::ZERO && x != EF::ONE {
                        fail(&mut sat, &mut first_violation, format!("call {ci}: assert_bool on non-boolean"));
                    }
                }
            }
            Call::Select(b, t, s) => {
                // `select` documents b in {0,1}; the builder's coefficient-wise decomposition of a
                // select result relies on it, so a non-boolean selector is a violated precondition
                if let Some(bv) = g(*b) {
                    if bv != EF::ZERO && bv != EF::ONE {
                        precond_violated = true;
                    }
                }
                vals.push(g(*b).zip(g(*t)).zip(g(*s)).map(|((b, t), s)| s + b * (t - s)))
            }
            Call::Connect(a, b) => {
                if let (Some(x), Some(y)) = (g(*a), g(*b)) {
                    if x != y {
                        fail(&mut sat, &mut first_violation, format!("call {ci}: connect of unequal values"));
                    }
                }
            }
            Call::AssertZero(a) => {
                if let Some(x) = g(*a) {
                    if x != EF::ZERO {
                        fail(&mut sat, &mut first_violation, format!("call {ci}: assert_zero on non-zero"));
                    }
                }
            }
            Call::MulMany(v) => {
                let mut acc = Some(EF::ONE);
                for i in v {
                    acc = acc.zip(g(*i)).map(|(a, b)| a * b);
                }
                vals.push(acc);
            }
            Call::InnerProduct(a, b) => {
                let mut acc = Some(EF::ZERO);
                for (i, j) in a.iter().zip(b.iter()) {
                    acc = acc.zip(g(*i)).zip(g(*j)).map(|((s, x), y)| s + x * y);
                }
                vals.push(acc);
            }
            Call::ExpPow2(a, k) => {
                let mut r = g(*a);
                for _ in 0..*k {
                    r = r.map(|x| x * x);
                }
                vals.push(r);
            }
            Call::DecomposeBits(a, n) => {
                // canonical little-endian bits, limb by limb, of the canonical representatives
                let x = g(*a);
                let bits_per = BF::bits();
                let mut out = Vec::new();
                if let Some(x) = x {
                    let cs = <EF as BasedVectorSpace<BF>>::as_basis_coefficients_slice(&x);
                    let mut recon = EF::ZERO;
                    'outer: for (li, c) in cs.iter().enumerate() {
                        let v = c.as_canonical_u64();
                        for j in 0..bits_per {
                            if out.len() >= *n {
                                break 'outer;
                            }
                            let bit = (v >> j) & 1;
                            if bit == 1 {
                                recon += basis(li) * EF::from(BF::from_u64(1u64 << j));
                            }
                            out.push(Some(EF::from_bool(bit == 1)));
                        }
                    }
                    while out.len() < *n {
                        out.push(Some(EF::ZERO));
                    }
                    if recon != x {
                        decomp_unfit = true;
                        fail(&mut sat, &mut first_violation, format!("call {ci}: value does not fit in {n} bits"));
                    }
                } else {
                    out = vec![None; *n];
                }
                vals.extend(out);
            }
            Call::ReconstructBits(v) => {
                let bits_per = BF::bits();
                let mut acc = Some(EF::ZERO);
                for (k, i) in v.iter().enumerate() {
                    let (li, j) = (k / bits_per, k % bits_per);
                    if let Some(b) = g(*i) {
                        if b != EF::ZERO && b != EF::ONE {
                            fail(&mut sat, &mut first_violation, format!("call {ci}: reconstruct on non-boolean bit"));
                        }
                    }
                    acc = acc
                        .zip(g(*i))
                        .map(|(s, b)| s + b * basis(li) * EF::from(BF::from_u64(1u64 << j)));
                }
                vals.push(acc);
            }
            Call::RecomposeExt(v, _) => {
                let mut acc = Some(EF::ZERO);
                for ci2 in v.iter() {
                    if let Some(c) = g(*ci2) {
                        if !is_base::<BF, EF>(&c) {
                            precond_violated = true;
                        }
                    }
                }
                for (i, ci2) in v.iter().enumerate() {
                    acc = acc.zip(g(*ci2)).map(|(s, c)| s + c * basis(i));
                }
                vals.push(acc);
            }
            Call::DecomposeExt(a) => {
                let base_idx = vals.len();
                let given: Option<Vec<EF>> = (0..d).map(|i| hinted.get(&(base_idx + i)).copied()).collect();
                if let (Some(x), Some(cs)) = (g(*a), given) {
                    let mut acc = EF::ZERO;
                    for (i, c) in cs.iter().enumerate() {
                        acc += *c * basis(i);
                    }
                    if acc != x {
                        fail(&mut sat, &mut first_violation, format!("call {ci}: recomposition constraint of the decomposition does not hold"));
                    }
                    for c in cs {
                        vals.push(Some(c));
                    }
                } else if let Some(x) = g(*a) {
                    for c in <EF as BasedVectorSpace<BF>>::as_basis_coefficients_slice(&x) {
                        vals.push(Some(EF::from(*c)));
                    }
                } else {
                    for _ in 0..d {
                        vals.push(None);
                    }
                }
            }
        }
    }
    RefOut { vals, sat, div_zero, decomp_unfit, precond_violated, first_violation, out_base }
}

/// Result of replaying a program into the real builder.
pub struct Built {
    pub exprs: Vec<ExprId>,
    pub build_errors: Vec<String>,
}

/// Drive the real `CircuitBuilder` with the program; tags every arena value `v<i>` when `tag`.
pub fn replay_into<BF: PrimeField64, EF: ExtensionField<BF> + Eq + core::hash::Hash>(
    p: &Program,
    b: &mut CircuitBuilder<EF>,
    tag: bool,
) -> Built {
    let mut ex: Vec<ExprId> = Vec::new();
    let mut errs = Vec::new();
    for c in &p.calls {
        let before = ex.len();
        match c {
            Call::Const(v) => ex.push(b.define_const(f_from_u64s::<BF, EF>(v))),
            Call::Public => ex.push(b.public_input()),
            Call::Private => ex.push(b.alloc_private_input("p")),
            Call::Add(x, y) => ex.push(b.add(ex[*x], ex[*y])),
            Call::Sub(x, y) => ex.push(b.sub(ex[*x], ex[*y])),
            Call::Mul(x, y) => ex.push(b.mul(ex[*x], ex[*y])),
            Call::Div(x, y) => ex.push(b.div(ex[*x], ex[*y])),
            Call::MulAdd(x, y, z) => ex.push(b.mul_add(ex[*x], ex[*y], ex[*z])),
            Call::Horner(a, al, pz, px) => {
                ex.push(b.horner_acc_step(ex[*a], ex[*al], ex[*pz], ex[*px]))
            }
            Call::AssertBool(x) => b.assert_bool(ex[*x]),
            Call::Select(s, t, f) => ex.push(b.select(ex[*s], ex[*t], ex[*f])),
            Call::Connect(x, y) => b.connect(ex[*x], ex[*y]),
            Call::AssertZero(x) => b.assert_zero(ex[*x]),
            Call::MulMany(v) => {
                let ids: Vec<ExprId> = v.iter().map(|i| ex[*i]).collect();
                ex.push(b.mul_many(&ids));
            }
            Call::InnerProduct(x, y) => {
                let xs: Vec<ExprId> = x.iter().map(|i| ex[*i]).collect();
                let ys: Vec<ExprId> = y.iter().map(|i| ex[*i]).collect();
                ex.push(b.inner_product(&xs, &ys));
            }
            Call::ExpPow2(x, k) => ex.push(b.exp_power_of_2(ex[*x], *k)),
            Call::DecomposeBits(x, n) => match b.decompose_to_bits::<BF>(ex[*x], *n) {
                Ok(bits) => ex.extend(bits),
                Err(e) => {
                    errs.push(format!("{e:?}"));
                    for _ in 0..*n {
                        ex.push(ExprId::ZERO);
                    }
                }
            },
            Call::ReconstructBits(v) => {
                let ids: Vec<ExprId> = v.iter().map(|i| ex[*i]).collect();
                match b.reconstruct_index_from_bits::<BF>(&ids) {
                    Ok(e) => ex.push(e),
                    Err(e) => {
                        errs.push(format!("{e:?}"));
                        ex.push(ExprId::ZERO);
                    }
                }
            }
            Call::RecomposeExt(v, mode) => {
                let ids: Vec<ExprId> = v.iter().map(|i| ex[*i]).collect();
                let r = match mode {
                    1 => b.recompose_base_coeffs_to_ext_with_coeff_lookups::<BF>(&ids),
                    2 => b.recompose_base_coeffs_to_ext_via_alu::<BF>(&ids),
                    _ => b.recompose_base_coeffs_to_ext::<BF>(&ids),
                };
                match r {
                    Ok(e) => ex.push(e),
                    Err(e) => {
                        errs.push(format!("{e:?}"));
                        ex.push(ExprId::ZERO);
                    }
                }
            }
            Call::DecomposeExt(x) => match b.decompose_ext_to_base_coeffs::<BF>(ex[*x]) {
                Ok(cs) => ex.extend(cs),
                Err(e) => {
                    errs.push(format!("{e:?}"));
                    for _ in 0..<EF as BasedVectorSpace<BF>>::DIMENSION {
                        ex.push(ExprId::ZERO);
                    }
                }
            },
        }
        if tag {
            for i in before..ex.len() {
                // distinct arena slots can be the same ExprId (CSE); tags are per arena slot
                let _ = b.tag(ex[i], format!("v{i}"));
            }
        }
    }
    Built { exprs: ex, build_errors: errs }
}

// -------------------------------------------------------------------------------------------
// Generator
// -------------------------------------------------------------------------------------------

#[derive(Clone, Debug)]
pub struct GenCfg {
    pub min_calls: usize,
    pub max_calls: usize,
    /// allow hint-based decompositions
    pub hints: bool,
    /// allow RecomposeExt modes other than via-ALU (needs the recompose table enabled)
    pub recompose_npo: bool,
    /// Horner steps: 0 = none, 1 = proper chains only (start at constant zero, each step's
    /// accumulator is the previous step's output, intermediate outputs unused elsewhere), 2 = any
    pub horner: u8,
    /// after generation, give every private input at least one ALU use (so that key generation can
    /// assign it a bus creator)
    pub claim_privates: bool,
    /// allow div
    pub div: bool,
    /// allow aliasing shapes known to be unprovable (public/public, public/const connects)
    pub creator_aliasing: bool,
}
impl Default for GenCfg {
    fn default() -> Self {
        Self { min_calls: 3, max_calls: 40, hints: true, recompose_npo: false, horner: 2, claim_privates: false, div: true, creator_aliasing: true }
    }
}

struct Slot<EF> {
    val: EF,
    is_bool: bool,
    base: bool,
    /// 0 = const, 1 = public, 2 = private, 3 = computed, 4 = hint output
    origin: u8,
    /// not to be picked as an operand (intermediate output of a proper Horner chain)
    excluded: bool,
}

pub struct Gen<'a, BF: PrimeField64, EF: ExtensionField<BF>> {
    rng: &'a mut Rng,
    cfg: GenCfg,
    calls: Vec<Call>,
    arena: Vec<Slot<EF>>,
    publics: Vec<Vec<u64>>,
    privates: Vec<Vec<u64>>,
    _p: core::marker::PhantomData<BF>,
}

impl<'a, BF: PrimeField64, EF: ExtensionField<BF>> Gen<'a, BF, EF> {
    fn d() -> usize {
        <EF as BasedVectorSpace<BF>>::DIMENSION
    }
    fn push_val(&mut self, val: EF, origin: u8) -> usize {
        let is_bool = val == EF::ZERO || val == EF::ONE;
        let base = is_base::<BF, EF>(&val);
        self.arena.push(Slot { val, is_bool, base, origin, excluded: false });
        self.arena.len() - 1
    }
    fn emit_const(&mut self, v: EF) -> usize {
        self.calls.push(Call::Const(f_to_u64s::<BF, EF>(&v)));
        self.push_val(v, 0)
    }
    fn emit_input(&mut self, v: EF, public: bool) -> usize {
        if public {
            self.calls.push(Call::Public);
            self.publics.push(f_to_u64s::<BF, EF>(&v));
            self.push_val(v, 1)
        } else {
            self.calls.push(Call::Private);
            self.privates.push(f_to_u64s::<BF, EF>(&v));
            self.push_val(v, 2)
        }
    }
    fn rand_val(&mut self) -> EF {
        match self.rng.below(10) {
            0 => EF::ZERO,
            1 => EF::ONE,
            2 => EF::NEG_ONE,
            3 => EF::TWO,
            4 => EF::from(BF::from_u64(self.rng.below(16))),
            5 | 6 => EF::from(BF::from_u64(self.rng.below(BF::ORDER_U64))),
            _ => rand_f::<BF, EF>(self.rng),
        }
    }
    fn any(&mut self) -> usize {
        // bias to recent values so that chains form
        let n = self.arena.len();
        for _ in 0..16 {
            let i = if n > 4 && self.rng.chance(1, 2) { n - 1 - self.rng.usize_below(4) } else { self.rng.usize_below(n) };
            if !self.arena[i].excluded {
                return i;
            }
        }
        (0..n).find(|i| !self.arena[*i].excluded).unwrap_or(0)
    }
    fn any_where(&mut self, f: impl Fn(&Slot<EF>) -> bool) -> Option<usize> {
        let idx: Vec<usize> = (0..self.arena.len()).filter(|i| !self.arena[*i].excluded && f(&self.arena[*i])).collect();
        if idx.is_empty() { None } else { Some(*self.rng.pick(&idx)) }
    }
    fn v(&self, i: usize) -> EF {
        self.arena[i].val
    }
    fn fresh_input_eq(&mut self, v: EF) -> usize {
        let public = self.rng.chance(1, 2);
        self.emit_input(v, public)
    }

    fn op2(&mut self, k: u8, a: usize, b: usize) -> usize {
        let (x, y) = (self.v(a), self.v(b));
        let (c, v) = match k {
            0 => (Call::Add(a, b), x + y),
            1 => (Call::Sub(a, b), x - y),
            _ => (Call::Mul(a, b), x * y),
        };
        self.calls.push(c);
        self.push_val(v, 3)
    }

    fn step(&mut self) {
        let r = self.rng.below(100);
        match r {
            0..=7 => {
                let v = self.rand_val();
                self.emit_const(v);
            }
            8..=15 => {
                let v = self.rand_val();
                let p = self.rng.chance(1, 2);
                self.emit_input(v, p);
            }
            16..=33 => {
                let (a, b) = (self.any(), self.any());
                let k = self.rng.below(3) as u8;
                self.op2(k, a, b);
            }
            34..=37 => {
                // commuted duplicate of an earlier add/mul (CSE / dedup shapes)
                let cands: Vec<(u8, usize, usize)> = self
                    .calls
                    .iter()
                    .filter_map(|c| match c {
                        Call::Add(a, b) => Some((0u8, *a, *b)),
                        Call::Mul(a, b) => Some((2u8, *a, *b)),
                        _ => None,
                    })
                    .collect();
                if let Some(&(k, a, b)) = cands.get(self.rng.usize_below(cands.len().max(1))) {
                    self.op2(k, b, a);
                }
            }
            38..=41 if self.cfg.div => {
                let a = self.any();
                if let Some(b) = self.any_where(|s| s.val != EF::ZERO) {
                    let v = self.v(a) * self.v(b).inverse();
                    self.calls.push(Call::Div(a, b));
                    self.push_val(v, 3);
                }
            }
            42..=47 => {
                let (mut a, mut b, mut c) = (self.any(), self.any(), self.any());
                if self.rng.chance(1, 4) {
                    // the addend is also a factor, and (half of the time) a private input seen here
                    // for the first time: one witness in a creating position and in `c` of one row
                    let p = if self.rng.chance(1, 2) {
                        let v = self.rand_val();
                        self.emit_input(v, false)
                    } else {
                        self.any()
                    };
                    c = p;
                    if self.rng.chance(1, 2) { a = p } else { b = p }
                }
                let v = self.v(a) * self.v(b) + self.v(c);
                self.calls.push(Call::MulAdd(a, b, c));
                self.push_val(v, 3);
            }
            48..=55 if self.cfg.horner > 0 => self.horner_shape(),
            56..=59 => {
                // assert_bool on a boolean value (fresh boolean input most of the time)
                let i = if self.rng.chance(2, 3) {
                    let bit = EF::from_bool(self.rng.chance(1, 2));
                    let p = self.rng.chance(1, 2);
                    self.emit_input(bit, p)
                } else if let Some(i) = self.any_where(|s| s.is_bool) {
                    i
                } else {
                    return;
                };
                self.calls.push(Call::AssertBool(i));
            }
            60..=63 => {
                if let Some(s) = self.any_where(|s| s.is_bool) {
                    let (t, f) = (self.any(), self.any());
                    let v = self.v(f) + self.v(s) * (self.v(t) - self.v(f));
                    self.calls.push(Call::Select(s, t, f));
                    self.push_val(v, 3);
                }
            }
            64..=75 => self.connect_shape(),
            76..=78 => {
                // assert_zero of (x - x') with x' equal valued
                let a = self.any();
                let va = self.v(a);
                let a2 = self.fresh_input_eq(va);
                let dsub = self.op2(1, a, a2);
                self.calls.push(Call::AssertZero(dsub));
            }
            79 => {
                // all products first, then a running sum (optionally onto a seed): chains of
                // mul+add fusion candidates whose addends are other candidates' outputs
                let n = self.rng.range(2, 6);
                let prods: Vec<usize> = (0..n)
                    .map(|_| {
                        let (a, b) = (self.any(), self.any());
                        self.op2(2, a, b)
                    })
                    .collect();
                let mut acc = if self.rng.chance(2, 3) {
                    // the seed of the running sum is an existing value, or (half of the time) a sum
                    // computed only now, after all the products: a fused add whose addend is
                    // defined later than its product
                    let r = if self.rng.chance(1, 2) {
                        let (f, g) = (self.any(), self.any());
                        self.op2(0, f, g)
                    } else {
                        self.any()
                    };
                    if self.rng.chance(1, 2) { self.op2(0, r, prods[0]) } else { self.op2(0, prods[0], r) }
                } else {
                    prods[0]
                };
                for m in &prods[1..] {
                    acc = if self.rng.chance(1, 2) { self.op2(0, acc, *m) } else { self.op2(0, *m, acc) };
                }
            }
            80..=81 => {
                let n = self.rng.range(0, 4);
                let v: Vec<usize> = (0..n).map(|_| self.any()).collect();
                let val = v.iter().fold(EF::ONE, |acc, i| acc * self.v(*i));
                self.calls.push(Call::MulMany(v));
                self.push_val(val, 3);
            }
            82..=84 => {
                let n = self.rng.range(1, 4);
                let a: Vec<usize> = (0..n).map(|_| self.any()).collect();
                let b: Vec<usize> = (0..n).map(|_| self.any()).collect();
                let val = a.iter().zip(b.iter()).fold(EF::ZERO, |acc, (i, j)| acc + self.v(*i) * self.v(*j));
                self.calls.push(Call::InnerProduct(a, b));
                self.push_val(val, 3);
            }
            85..=86 => {
                let a = self.any();
                let k = self.rng.range(0, 3);
                let mut val = self.v(a);
                for _ in 0..k {
                    val = val * val;
                }
                self.calls.push(Call::ExpPow2(a, k));
                self.push_val(val, 3);
            }
            87..=90 if self.cfg.hints => {
                // decompose a small base value into bits
                let n = self.rng.range(1, 10);
                // one time in four the value zero (every limb of it is zero)
                let x = if self.rng.chance(1, 4) { 0 } else { self.rng.below(1u64 << n) };
                let xv = EF::from(BF::from_u64(x));
                let xi = if self.rng.chance(1, 2) {
                    self.fresh_input_eq(xv)
                } else {
                    // computed: input + const
                    let c = self.rng.below(x + 1);
                    let i = self.fresh_input_eq(EF::from(BF::from_u64(x - c)));
                    let ci = self.emit_const(EF::from(BF::from_u64(c)));
                    self.op2(0, i, ci)
                };
                self.calls.push(Call::DecomposeBits(xi, n));
                let first_bit = self.arena.len();
                for j in 0..n {
                    self.push_val(EF::from_bool((x >> j) & 1 == 1), 4);
                }
                // one time in three a bit is tied to an input of its own (a claimed bit: the slot is
                // already set when the hint runs, so the hint has to compare instead of write)
                if self.rng.chance(1, 3) {
                    let j = self.rng.usize_below(n as usize);
                    let bv = self.v(first_bit + j);
                    let claimed = self.fresh_input_eq(bv);
                    self.calls.push(Call::Connect(first_bit + j, claimed));
                }
            }
            91..=92 => {
                let n = self.rng.range(1, 6);
                let mut bits = Vec::new();
                for _ in 0..n {
                    let i = if let (true, Some(i)) = (self.rng.chance(1, 2), self.any_where(|s| s.is_bool)) {
                        i
                    } else {
                        let bit = EF::from_bool(self.rng.chance(1, 2));
                        self.fresh_input_eq(bit)
                    };
                    bits.push(i);
                }
                let mut val = EF::ZERO;
                for (j, i) in bits.iter().enumerate() {
                    val += self.v(*i) * EF::from(BF::from_u64(1u64 << j));
                }
                self.calls.push(Call::ReconstructBits(bits));
                self.push_val(val, 3);
            }
            93..=95 if Self::d() > 1 => {
                // recompose D base coefficients
                let d = Self::d();
                let mut cs = Vec::new();
                for _ in 0..d {
                    let i = if let (true, Some(i)) = (self.rng.chance(1, 3), self.any_where(|s| s.base)) {
                        i
                    } else {
                        let v = EF::from(BF::from_u64(self.rng.below(BF::ORDER_U64)));
                        self.fresh_input_eq(v)
                    };
                    cs.push(i);
                }
                let mut val = EF::ZERO;
                for (i, c) in cs.iter().enumerate() {
                    let mut bv = vec![BF::ZERO; d];
                    bv[i] = BF::ONE;
                    val += self.v(*c) * EF::from_basis_coefficients_slice(&bv).unwrap();
                }
                let mode = if self.cfg.recompose_npo { *self.rng.pick(&[0u8, 0, 2]) } else { 2 };
                self.calls.push(Call::RecomposeExt(cs, mode));
                self.push_val(val, 3);
            }
            96..=99 if self.cfg.hints && Self::d() > 1 => {
                let a = self.any();
                let x = self.v(a);
                self.calls.push(Call::DecomposeExt(a));
                let cs: Vec<BF> = <EF as BasedVectorSpace<BF>>::as_basis_coefficients_slice(&x).to_vec();
                for c in cs {
                    self.push_val(EF::from(c), 4);
                }
            }
            _ => {
                let (a, b) = (self.any(), self.any());
                self.op2(2, a, b);
            }
        }
    }

    /// Horner shapes: chains, broken chains, same (alpha,pz,px) with different accumulators,
    /// two chains back to back, accumulators that are not a previous step.
    fn horner_shape(&mut self) {
        let shape = if self.cfg.horner == 1 || self.cfg.horner == 3 { 5 } else { self.rng.below(6) };
        let steps = if shape == 5 { self.rng.range(1, 9) } else { self.rng.range(1, 5) };
        let emit = |g: &mut Self, acc: usize, al: usize, pz: usize, px: usize| -> usize {
            let v = g.v(acc) * g.v(al) + g.v(pz) - g.v(px);
            g.calls.push(Call::Horner(acc, al, pz, px));
            g.push_val(v, 3)
        };
        match shape {
            5 => {
                // proper chain: starts at the constant zero, operands chosen before the chain so
                // that the steps are emitted consecutively, intermediate outputs never reused
                let al = self.any();
                let mut ops: Vec<(usize, usize)> = (0..steps).map(|_| (self.any(), self.any())).collect();
                // one time in three, one step's p_at_z is a product made just before the chain whose
                // only other reader is one forward add after the chain (a product with two readers,
                // one of them a Horner step's `c` operand: not a fusion candidate)
                let shared_product = if self.rng.chance(1, 3) {
                    let (x, y) = (self.any(), self.any());
                    let p = self.op2(2, x, y);
                    let k = self.rng.usize_below(steps);
                    ops[k].0 = p;
                    Some(p)
                } else {
                    None
                };
                if self.calls.iter().rev().find(|c| !matches!(c, Call::Const(_) | Call::Public | Call::Private | Call::Connect(..))).is_some_and(|c| matches!(c, Call::Horner(..))) {
                    // keep this chain from being scheduled as a continuation of the previous one
                    let (x, y) = (self.any(), self.any());
                    self.op2(2, x, y);
                }
                let mut acc = self.emit_const(EF::ZERO);
                for (k, (pz, px)) in ops.iter().enumerate() {
                    acc = emit(self, acc, al, *pz, *px);
                    if k + 1 < steps {
                        self.arena[acc].excluded = true;
                    }
                }
                if self.rng.chance(1, 2) {
                    // the usual use: the folded value is compared with an expected input
                    let v = self.v(acc);
                    let e = self.fresh_input_eq(v);
                    self.calls.push(Call::Connect(acc, e));
                }
                if let Some(p) = shared_product {
                    let w = self.any();
                    let _q = self.op2(0, p, w);
                }
            }
            0 | 1 => {
                // chain with arbitrary start, shared alpha
                let al = self.any();
                let mut acc = self.any();
                for _ in 0..steps {
                    let (pz, px) = (self.any(), self.any());
                    acc = emit(self, acc, al, pz, px);
                }
            }
            2 => {
                // same (alpha,pz,px) with two different accumulators
                let (al, pz, px) = (self.any(), self.any(), self.any());
                let (a1, a2) = (self.any(), self.any());
                emit(self, a1, al, pz, px);
                emit(self, a2, al, pz, px);
            }
            3 => {
                // two chains back to back
                let al = self.any();
                for _ in 0..2 {
                    let mut acc = self.any();
                    for _ in 0..steps.min(3) {
                        let (pz, px) = (self.any(), self.any());
                        acc = emit(self, acc, al, pz, px);
                    }
                }
            }
            _ => {
                // accumulator arbitrary each step
                for _ in 0..steps {
                    let (acc, al, pz, px) = (self.any(), self.any(), self.any(), self.any());
                    emit(self, acc, al, pz, px);
                }
            }
        }
    }

    /// Connect shapes that keep the program satisfiable.
    fn connect_shape(&mut self) {
        let shape = self.rng.below(13);
        match shape {
            0 | 1 => {
                // value <-> fresh input of equal value
                let a = self.any();
                let va = self.v(a);
                let b = self.fresh_input_eq(va);
                if !self.cfg.creator_aliasing && self.arena[a].origin <= 1 && self.arena[b].origin == 1 {
                    return;
                }
                if self.rng.chance(1, 2) {
                    self.calls.push(Call::Connect(a, b));
                } else {
                    self.calls.push(Call::Connect(b, a));
                }
            }
            2 => {
                // algebraic identity: x*y + x*z  ==  x*(y+z)
                let (x, y, z) = (self.any(), self.any(), self.any());
                let xy = self.op2(2, x, y);
                let xz = self.op2(2, x, z);
                let l = self.op2(0, xy, xz);
                let yz = self.op2(0, y, z);
                let r = self.op2(2, x, yz);
                self.calls.push(Call::Connect(l, r));
            }
            3 => {
                // mul_add(a,b,c) == add(mul(a,b),c)   (fusion target with aliased product)
                let (a, b, c) = (self.any(), self.any(), self.any());
                let ab = self.op2(2, a, b);
                let s = self.op2(0, ab, c);
                let v = self.v(a) * self.v(b) + self.v(c);
                self.calls.push(Call::MulAdd(a, b, c));
                let m = self.push_val(v, 3);
                self.calls.push(Call::Connect(s, m));
                if self.rng.chance(1, 2) {
                    // also alias the product itself to a fresh input
                    let vab = self.v(ab);
                    let p = self.fresh_input_eq(vab);
                    self.calls.push(Call::Connect(ab, p));
                }
            }
            4 => {
                // (a - b) + b == a
                let (a, b) = (self.any(), self.any());
                let dd = self.op2(1, a, b);
                let s = self.op2(0, dd, b);
                self.calls.push(Call::Connect(s, a));
            }
            5 => {
                // mul whose only use is add/sub with a const; product aliased
                let (a, b) = (self.any(), self.any());
                let ab = self.op2(2, a, b);
                let cv = self.rand_val();
                let c = self.emit_const(cv);
                let k = if self.rng.chance(1, 2) { 0 } else { 1 };
                let r = self.op2(k, ab, c);
                let vr = self.v(r);
                let p = self.fresh_input_eq(vr);
                self.calls.push(Call::Connect(r, p));
                if self.rng.chance(1, 2) {
                    let vab = self.v(ab);
                    let q = self.fresh_input_eq(vab);
                    self.calls.push(Call::Connect(q, ab));
                }
            }
            6 => {
                // two existing equal-valued slots, if any
                let n = self.arena.len();
                let a = self.rng.usize_below(n);
                let va = self.v(a);
                if let Some(b) = (0..n).find(|&j| j != a && self.arena[j].val == va) {
                    if !self.cfg.creator_aliasing && self.arena[a].origin <= 1 && self.arena[b].origin <= 1 {
                        return;
                    }
                    self.calls.push(Call::Connect(a, b));
                }
            }
            8 | 9 => {
                // ops that are duplicates only at witness level (operands aliased through connect),
                // with the duplicate's output connected to a value held by an earlier op: a sub
                // result, a div result, an earlier add, or an input an earlier op only reads
                let a = self.any();
                let bv = self.rand_val();
                let b = self.fresh_input_eq(bv);
                let c = self.fresh_input_eq(bv);
                let k = if self.rng.chance(1, 2) { 2 } else { 0 }; // mul or add
                let target_first = self.rng.chance(1, 2);
                let val = if k == 2 { self.v(a) * bv } else { self.v(a) + bv };
                let mk_target = |g: &mut Self| -> usize {
                    match g.rng.below(4) {
                        0 => {
                            // d = p - kk with p = val + kk
                            let kk = g.any();
                            let pv = val + g.v(kk);
                            let pi = g.fresh_input_eq(pv);
                            g.op2(1, pi, kk)
                        }
                        1 => {
                            // q = p / kk with p = val * kk
                            if let Some(kk) = g.any_where(|s| s.val != EF::ZERO) {
                                let pv = val * g.v(kk);
                                let pi = g.fresh_input_eq(pv);
                                g.calls.push(Call::Div(pi, kk));
                                g.push_val(val, 3)
                            } else {
                                g.fresh_input_eq(val)
                            }
                        }
                        2 => {
                            // t = p + q with p = val - q
                            let q = g.any();
                            let pv = val - g.v(q);
                            let pi = g.fresh_input_eq(pv);
                            g.op2(0, pi, q)
                        }
                        _ => {
                            // a private input that an earlier op only reads
                            g.calls.push(Call::Private);
                            g.privates.push(f_to_u64s::<BF, EF>(&val));
                            let pi = g.push_val(val, 2);
                            let o = g.any();
                            g.op2(0, o, pi);
                            pi
                        }
                    }
                };
                let t0 = if target_first { Some(mk_target(self)) } else { None };
                self.calls.push(Call::Connect(b, c));
                let m1 = self.op2(k, a, b);
                let m2 = self.op2(k, a, c);
                let t = match t0 {
                    Some(t) => t,
                    None => mk_target(self),
                };
                if self.rng.chance(1, 2) {
                    self.calls.push(Call::Connect(m2, t));
                } else {
                    self.calls.push(Call::Connect(t, m2));
                }
                let _ = m1;
            }
            12 => {
                // a private input whose only mention is a connect to the *second* of two muls that
                // are duplicates at witness level (operands aliased through connect); the product is
                // used once, in a forward add (dedup rewrites the private slot, fusion then sees a
                // single-use product)
                let k = self.any();
                let xv = self.rand_val();
                let x = self.fresh_input_eq(xv);
                let y = self.fresh_input_eq(xv);
                let early = self.rng.chance(1, 2);
                let pv = self.v(k) * xv;
                let p_early = if early { Some(self.emit_input(pv, false)) } else { None };
                self.calls.push(Call::Connect(x, y));
                let _m1 = self.op2(2, k, x);
                let m2 = self.op2(2, k, y);
                let p = p_early.unwrap_or_else(|| self.emit_input(pv, false));
                if self.rng.chance(1, 2) {
                    self.calls.push(Call::Connect(p, m2));
                } else {
                    self.calls.push(Call::Connect(m2, p));
                }
                let z = self.any();
                let _s = self.op2(0, m2, z);
            }
            10 => {
                // witness-level duplicate through the backwards encoding of sub: r = x - y is
                // lowered as y + r = x, so s = y + r duplicates it; s is tied to an earlier add
                let (x, y) = (self.any(), self.any());
                let q = self.any();
                let pv = self.v(x) - self.v(q);
                let pi = self.fresh_input_eq(pv);
                let t = self.op2(0, pi, q);
                let r = self.op2(1, x, y);
                let s2 = self.op2(0, y, r);
                self.calls.push(Call::Connect(s2, t));
            }
            11 => {
                // a value pinned to a constant, possibly twice through two separate constant calls of
                // equal value (a later perturbation of one of them makes the program statically
                // false: two distinct constants in one connect class)
                let x = if self.cfg.creator_aliasing && self.rng.chance(1, 3) {
                    let v = self.rand_val();
                    let p = self.rng.chance(1, 2);
                    self.emit_input(v, p)
                } else {
                    let (a, b) = (self.any(), self.any());
                    self.op2(2, a, b)
                };
                let vx = self.v(x);
                let c1 = self.emit_const(vx);
                self.calls.push(Call::Connect(x, c1));
                if self.rng.chance(2, 3) {
                    let c2 = self.emit_const(vx);
                    if self.rng.chance(1, 2) {
                        self.calls.push(Call::Connect(x, c2));
                    } else {
                        let dsub = self.op2(1, x, c2);
                        self.calls.push(Call::AssertZero(dsub));
                    }
                }
            }
            _ => {
                // input connected to an op output created later
                let va = self.rand_val();
                let inp = self.emit_input(va, false);
                let (x, y) = (self.any(), self.any());
                // choose y' so that x + y' == va: y' is a fresh input
                let yv = va - self.v(x);
                let _ = y;
                let yi = self.fresh_input_eq(yv);
                let s = self.op2(0, x, yi);
                self.calls.push(Call::Connect(inp, s));
            }
        }
    }
}

pub fn generate<BF: PrimeField64, EF: ExtensionField<BF>>(rng: &mut Rng, cfg: &GenCfg) -> Program {
    let target = rng.range(cfg.min_calls, cfg.max_calls);
    let mut g: Gen<'_, BF, EF> = Gen {
        rng,
        cfg: cfg.clone(),
        calls: Vec::new(),
        arena: Vec::new(),
        publics: Vec::new(),
        privates: Vec::new(),
        _p: core::marker::PhantomData,
    };
    // a few seeds so that `any()` has material
    let v = g.rand_val();
    g.emit_input(v, true);
    let v = g.rand_val();
    g.emit_input(v, false);
    let v = g.rand_val();
    g.emit_const(v);
    // horner == 3: proper chains only, and at least one of them, at a seeded position
    let mut forced_at = if cfg.horner == 3 { Some(g.rng.range(0, target)) } else { None };
    while g.calls.len() < target {
        if forced_at.is_some_and(|t| g.calls.len() >= t) {
            forced_at = None;
            g.horner_shape();
        }
        g.step();
    }
    if cfg.claim_privates {
        let privs: Vec<usize> = (0..g.arena.len()).filter(|i| g.arena[*i].origin == 2).collect();
        for p in privs {
            let x = g.rng.usize_below(3);
            g.op2(0, p, x);
        }
    }
    Program { calls: g.calls, publics: g.publics, privates: g.privates }
}

/// Additions, subtractions and connects only: no extension multiplication anywhere, so the trace is
/// the same whatever reduction polynomial the ALU table is built for.
pub fn generate_linear<BF: PrimeField64, EF: ExtensionField<BF>>(rng: &mut Rng, n: usize) -> Program {
    let cfg = GenCfg { min_calls: n, max_calls: n, hints: false, recompose_npo: false, horner: 0, claim_privates: true, div: false, creator_aliasing: false };
    let mut g: Gen<'_, BF, EF> = Gen { rng, cfg, calls: Vec::new(), arena: Vec::new(), publics: Vec::new(), privates: Vec::new(), _p: core::marker::PhantomData };
    let v = g.rand_val();
    g.emit_input(v, true);
    let v = g.rand_val();
    g.emit_input(v, false);
    while g.calls.len() < n {
        match g.rng.below(6) {
            0 => {
                let v = g.rand_val();
                g.emit_const(v);
            }
            1 => {
                let v = g.rand_val();
                let p = g.rng.chance(1, 2);
                g.emit_input(v, p);
            }
            2 | 3 | 4 => {
                let (a, b) = (g.any(), g.any());
                let k = g.rng.below(2) as u8;
                g.op2(k, a, b);
            }
            _ => {
                let a = g.any();
                if g.arena[a].origin == 3 {
                    let va = g.v(a);
                    let b = g.emit_input(va, true);
                    g.calls.push(Call::Connect(a, b));
                }
            }
        }
    }
    let privs: Vec<usize> = (0..g.arena.len()).filter(|i| g.arena[*i].origin == 2).collect();
    for p in privs {
        g.op2(0, p, 0);
    }
    Program { calls: g.calls, publics: g.publics, privates: g.privates }
}

/// Change one input value; returns which (public?, index) was changed.
pub fn perturb_input<BF: PrimeField64, EF: ExtensionField<BF>>(p: &mut Program, rng: &mut Rng) -> Option<(bool, usize)> {
    let np = p.publics.len();
    let nq = p.privates.len();
    if np + nq == 0 {
        return None;
    }
    let k = rng.usize_below(np + nq);
    let newv = loop {
        let v = match rng.below(3) {
            0 => vec![rng.below(4)],
            _ => f_to_u64s::<BF, EF>(&rand_f::<BF, EF>(rng)),
        };
        let cur = if k < np { &p.publics[k] } else { &p.privates[k - np] };
        if f_from_u64s::<BF, EF>(&v) != f_from_u64s::<BF, EF>(cur) {
            break v;
        }
    };
    if k < np {
        p.publics[k] = newv;
        Some((true, k))
    } else {
        p.privates[k - np] = newv;
        Some((false, k - np))
    }
}

/// Change one constant of the program (c -> c + 1): relations that pinned values to it no longer
/// hold for any input.
pub fn perturb_const<BF: PrimeField64, EF: ExtensionField<BF>>(p: &mut Program, rng: &mut Rng) -> Option<usize> {
    let idxs: Vec<usize> = p.calls.iter().enumerate().filter(|(_, c)| matches!(c, Call::Const(_))).map(|(i, _)| i).collect();
    if idxs.is_empty() {
        return None;
    }
    let i = *rng.pick(&idxs);
    if let Call::Const(v) = &mut p.calls[i] {
        let cur = f_from_u64s::<BF, EF>(v);
        *v = f_to_u64s::<BF, EF>(&(cur + EF::ONE));
    }
    Some(i)
}

/// Delta-debugging minimiser over calls: drop a call (and everything that depends on it) while
/// `still_fails` holds. Input vectors are kept consistent.
pub fn minimise(p: &Program, d: usize, still_fails: &dyn Fn(&Program) -> bool) -> Program {
    let mut cur = p.clone();
    let mut progress = true;
    let mut budget = 400usize;
    while progress && budget > 0 {
        progress = false;
        let mut i = cur.calls.len();
        while i > 0 && budget > 0 {
            i -= 1;
            if let Some(cand) = drop_call(&cur, i, d) {
                budget -= 1;
                if still_fails(&cand) {
                    cur = cand;
                    progress = true;
                    if i > cur.calls.len() {
                        i = cur.calls.len();
                    }
                }
            }
        }
    }
    cur
}

/// Remove call `k` and, transitively, every call that uses one of its outputs.
pub fn drop_call(p: &Program, k: usize, d: usize) -> Option<Program> {
    let n = p.calls.len();
    let mut out_base = Vec::with_capacity(n);
    let mut total = 0usize;
    for c in &p.calls {
        out_base.push(total);
        total += c.n_out(d);
    }
    let mut dead_val = vec![false; total];
    let mut dead_call = vec![false; n];
    dead_call[k] = true;
    for j in 0..p.calls[k].n_out(d) {
        dead_val[out_base[k] + j] = true;
    }
    for i in k + 1..n {
        if p.calls[i].operands().iter().any(|o| dead_val[*o]) {
            dead_call[i] = true;
            for j in 0..p.calls[i].n_out(d) {
                dead_val[out_base[i] + j] = true;
            }
        }
    }
    if dead_call.iter().all(|x| *x) {
        return None;
    }
    // renumber
    let mut new_idx = vec![usize::MAX; total];
    let mut next = 0usize;
    for (i, dv) in dead_val.iter().enumerate() {
        if !dv {
            new_idx[i] = next;
            next += 1;
        }
    }
    let mut calls = Vec::new();
    let (mut publics, mut privates) = (Vec::new(), Vec::new());
    let (mut ip, mut iq) = (0usize, 0usize);
    for (i, c) in p.calls.iter().enumerate() {
        let (is_pub, is_priv) = (matches!(c, Call::Public), matches!(c, Call::Private));
        if !dead_call[i] {
            let mut c2 = c.clone();
            c2.map_operands(&|o| new_idx[o]);
            calls.push(c2);
            if is_pub {
                publics.push(p.publics[ip].clone());
            }
            if is_priv {
                privates.push(p.privates[iq].clone());
            }
        }
        if is_pub {
            ip += 1;
        }
        if is_priv {
            iq += 1;
        }
    }
    Some(Program { calls, publics, privates })
}

pub fn kinds_signature(p: &Program) -> u64 {
    let mut d = crate::core::prng::Digest::new();
    for c in &p.calls {
        d.str(c.kind());
    }
    d.finish()
}

#[allow(dead_code)]
pub fn zero<EF: PrimeCharacteristicRing>() -> EF {
    EF::ZERO
}
#[allow(dead_code)]
pub fn field_marker<F: Field>() {}
