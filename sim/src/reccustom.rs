//! Recursive-verification universe over *custom* batch-STARK proofs (raw `p3_batch_stark`, not the
//! circuit prover): small AIRs with and without lookups, with and without next-row access, at
//! different heights, in different orders. What the circuit-prover batches can never show: tables
//! without lookups before tables with lookups, instances that do not open the next row, global
//! lookups between custom tables.

use p3_air::{Air, AirBuilder, BaseAir, WindowAccess};
use p3_batch_stark::{BatchProof, CommonData, ProverData, StarkInstance, prove_batch, verify_batch};
use p3_circuit::CircuitBuilder;
use p3_circuit::ops::{generate_poseidon2_trace, generate_recompose_trace};
use p3_field::{Field, PrimeCharacteristicRing, PrimeField64};
use p3_lookup::{Count, InteractionBuilder};
use p3_lookup::logup::LogUpGadget;
use p3_matrix::dense::RowMajorMatrix;
use p3_poseidon2_circuit_air::KoalaBearD4Width16;
use p3_recursion::pcs::fri::{FriVerifierParams, InputProofTargets, MerkleCapTargets, RecValMmcs};
use p3_recursion::pcs::{FriProofTargets, RecExtensionValMmcs, Witness, set_fri_mmcs_private_data};
use p3_recursion::{BatchStarkVerifierInputsBuilder, Poseidon2Config, StarkVerifierInputsBuilder, verify_batch_circuit, verify_p3_uni_proof_circuit};
use p3_uni_stark::{PreprocessedVerifierKey, prove_with_preprocessed, setup_preprocessed, verify_with_preprocessed};
use p3_test_utils::koala_bear_params::*;

use crate::core::pool::observe;
use crate::rec::{CircuitInfo, CircuitVerdict, FriShape, RecUni};

const BUS: &str = "custom_bus";
const P2: Poseidon2Config = Poseidon2Config::KOALA_BEAR_D4_W16;


/// Width-2 tables. `Plain`: b = 2a (row-local, no lookups). `Send` / `Recv`: b = a^2 and the pair
/// (a, b) goes on a global bus. `Step`: next.a = a + b (needs the next row), no lookups.
#[derive(Clone, Copy, Debug, PartialEq, Eq, serde::Serialize, serde::Deserialize)]
pub enum CAir {
    Plain,
    Send,
    Recv,
    Step,
    /// width 6: the triple (q0,q1,q2) is looked up in the table (t0,t1,t2) of the same AIR (local
    /// lookup, tuple wider than every global payload of the batch)
    Local3,
    /// b = a * p + q + r with p, q, r periodic columns of periods 4, 2 and 8 (a shorter period
    /// after a longer one and a longer one after a shorter one)
    Periodic,
    /// b = a^5: constraint degree 5, four quotient chunks
    Quint,
    /// `Step` whose first a and last b are public values
    Pub,
    /// b = a * pre0 + pre1 with two preprocessed columns pre0[r] = r + 1, pre1[r] = 2r + 3 (their
    /// height has to be known to the AIR); `next`: pre0 is also read on the next row (pre0' = pre0 + 1)
    Prep { log_rows: u8, next: bool },
}

const PERIODIC: [u64; 4] = [2, 3, 5, 7];
const PERIODIC2: [u64; 2] = [11, 13];
const PERIODIC3: [u64; 8] = [17, 19, 23, 29, 31, 37, 41, 43];

impl<Val: Field> BaseAir<Val> for CAir {
    fn width(&self) -> usize {
        if matches!(self, Self::Local3) { 6 } else { 2 }
    }
    fn num_public_values(&self) -> usize {
        if matches!(self, Self::Pub) { 2 } else { 0 }
    }
    fn preprocessed_trace(&self) -> Option<RowMajorMatrix<Val>> {
        match self {
            Self::Prep { log_rows, .. } => Some(RowMajorMatrix::new((0..1usize << log_rows).flat_map(|r| [Val::from_usize(r + 1), Val::from_usize(2 * r + 3)]).collect(), 2)),
            _ => None,
        }
    }
    fn preprocessed_width(&self) -> usize {
        if matches!(self, Self::Prep { .. }) { 2 } else { 0 }
    }
    fn main_next_row_columns(&self) -> Vec<usize> {
        if matches!(self, Self::Step | Self::Pub) { vec![0] } else { vec![] }
    }
    fn preprocessed_next_row_columns(&self) -> Vec<usize> {
        if matches!(self, Self::Prep { next: true, .. }) { vec![0] } else { vec![] }
    }
    fn num_periodic_columns(&self) -> usize {
        if matches!(self, Self::Periodic) { 3 } else { 0 }
    }
    fn periodic_columns(&self) -> Vec<Vec<Val>> {
        if matches!(self, Self::Periodic) { vec![PERIODIC.iter().map(|&x| Val::from_u64(x)).collect(), PERIODIC2.iter().map(|&x| Val::from_u64(x)).collect(), PERIODIC3.iter().map(|&x| Val::from_u64(x)).collect()] } else { vec![] }
    }
}

/// The constraints that need no lookup support (every kind except the bus / local-lookup parts).
fn eval_common<AB: AirBuilder>(air: &CAir, builder: &mut AB)
where
    AB::F: Field,
{
    let main = builder.main();
    let row = main.current_slice();
    let (a, b) = (row[0], row[1]);
    match air {
        CAir::Plain => builder.assert_zero(a + a - b),
        CAir::Quint => {
            let a: AB::Expr = a.into();
            builder.assert_zero(a.clone() * a.clone() * a.clone() * a.clone() * a - b);
        }
        CAir::Send | CAir::Recv => builder.assert_zero(a * a - b),
        CAir::Step => {
            let next = main.next_slice();
            builder.when_transition().assert_zero(next[0] - a - b);
        }
        CAir::Pub => {
            let (pv0, pv1): (AB::Expr, AB::Expr) = (builder.public_values()[0].into(), builder.public_values()[1].into());
            let next = main.next_slice();
            builder.when_transition().assert_zero(next[0] - a - b);
            builder.when_first_row().assert_zero(pv0 - a);
            builder.when_last_row().assert_zero(pv1 - b);
        }
        CAir::Local3 => {}
        CAir::Periodic => {
            let p: AB::Expr = builder.periodic_values()[0].into();
            let q: AB::Expr = builder.periodic_values()[1].into();
            let r: AB::Expr = builder.periodic_values()[2].into();
            builder.assert_zero(p * a + q + r - b);
        }
        CAir::Prep { next, .. } => {
            let prep = builder.preprocessed().clone();
            let pre: AB::Expr = prep.current_slice()[0].into();
            let pre1: AB::Expr = prep.current_slice()[1].into();
            builder.assert_zero(pre.clone() * a + pre1 - b);
            if *next {
                let pre_next: AB::Expr = prep.next_slice()[0].into();
                builder.when_transition().assert_zero(pre_next - pre - AB::Expr::ONE);
            }
        }
    }
}

impl<AB: AirBuilder + InteractionBuilder> Air<AB> for CAir
where
    AB::F: Field,
{
    fn eval(&self, builder: &mut AB) {
        eval_common(self, builder);
        let main = builder.main();
        let row = main.current_slice();
        match self {
            Self::Send => builder.push_interaction(BUS, [row[0].into(), row[1].into()], -1),
            Self::Recv => builder.push_interaction(BUS, [row[0].into(), row[1].into()], 1),
            Self::Local3 => {
                let q: Vec<AB::Expr> = row[..3].iter().map(|&v| v.into()).collect();
                let t: Vec<AB::Expr> = row[3..6].iter().map(|&v| v.into()).collect();
                builder.push_local_interaction(vec![(q, Count::bounded(AB::Expr::ONE, 1)), (t, Count::provided(-AB::Expr::ONE))]);
            }
            _ => {}
        }
    }
}

/// The same tables as a uni-STARK AIR (no lookup support needed: Plain, Step, Periodic, Pub, Prep).
#[derive(Clone, Copy, Debug)]
pub struct UAir(pub CAir);

impl<Val: Field> BaseAir<Val> for UAir {
    fn width(&self) -> usize {
        BaseAir::<Val>::width(&self.0)
    }
    fn num_public_values(&self) -> usize {
        BaseAir::<Val>::num_public_values(&self.0)
    }
    fn num_periodic_columns(&self) -> usize {
        BaseAir::<Val>::num_periodic_columns(&self.0)
    }
    fn periodic_columns(&self) -> Vec<Vec<Val>> {
        BaseAir::<Val>::periodic_columns(&self.0)
    }
    fn preprocessed_trace(&self) -> Option<RowMajorMatrix<Val>> {
        BaseAir::<Val>::preprocessed_trace(&self.0)
    }
    fn preprocessed_width(&self) -> usize {
        BaseAir::<Val>::preprocessed_width(&self.0)
    }
    fn main_next_row_columns(&self) -> Vec<usize> {
        BaseAir::<Val>::main_next_row_columns(&self.0)
    }
    fn preprocessed_next_row_columns(&self) -> Vec<usize> {
        BaseAir::<Val>::preprocessed_next_row_columns(&self.0)
    }
}

impl<AB: AirBuilder> Air<AB> for UAir
where
    AB::F: Field,
{
    fn eval(&self, builder: &mut AB) {
        eval_common(&self.0, builder);
    }
}

fn pvs_for(air: CAir, rows: usize) -> Vec<F> {
    if air == CAir::Pub { vec![F::from_u64(5), F::from_usize(2 * (rows - 1) + 1)] } else { vec![] }
}

fn trace_for(air: CAir, rows: usize) -> RowMajorMatrix<F> {
    if air == CAir::Local3 {
        let tuple = |i: usize, k: usize| F::from_usize((k + 1) * i + 1 + k * (k + 3));
        let mut values = F::zero_vec(rows * 6);
        for r in 0..rows {
            for k in 0..3 {
                values[r * 6 + k] = tuple(r, k);
                values[r * 6 + 3 + k] = tuple(rows - 1 - r, k);
            }
        }
        return RowMajorMatrix::new(values, 6);
    }
    let mut values = F::zero_vec(rows * 2);
    let mut acc = F::from_u64(5);
    for r in 0..rows {
        let a = match air {
            CAir::Step | CAir::Pub => acc,
            _ => F::from_usize(r + 3),
        };
        let b = match air {
            CAir::Plain => a + a,
            CAir::Send | CAir::Recv => a * a,
            CAir::Step | CAir::Pub => F::from_usize(2 * r + 1),
            CAir::Periodic => a * F::from_u64(PERIODIC[r % 4]) + F::from_u64(PERIODIC2[r % 2]) + F::from_u64(PERIODIC3[r % 8]),
            CAir::Quint => a * a * a * a * a,
            CAir::Prep { .. } => a * F::from_usize(r + 1) + F::from_usize(2 * r + 3),
            CAir::Local3 => unreachable!(),
        };
        values[2 * r] = a;
        values[2 * r + 1] = b;
        acc = a + b;
    }
    RowMajorMatrix::new(values, 2)
}

const PREP: CAir = CAir::Prep { log_rows: 0, next: false };
const PREPN: CAir = CAir::Prep { log_rows: 0, next: true };
pub const N_ORDERS: usize = 23;
pub const N_UNI_KINDS: usize = 7;
const ORDERS: [&[CAir]; N_ORDERS] = [
    &[CAir::Quint],
    &[CAir::Send, CAir::Quint, CAir::Recv],
    &[CAir::Quint, PREPN, CAir::Periodic],
    &[PREP],
    &[CAir::Plain, PREPN, CAir::Send, CAir::Recv],
    &[PREP, CAir::Step, PREPN],
    &[CAir::Send, CAir::Recv, PREP, CAir::Pub],
    &[CAir::Pub],
    &[CAir::Plain, CAir::Pub, CAir::Send, CAir::Recv],
    &[CAir::Pub, CAir::Periodic, CAir::Pub],
    &[CAir::Local3],
    &[CAir::Send, CAir::Local3, CAir::Recv],
    &[CAir::Plain, CAir::Local3],
    &[CAir::Periodic],
    &[CAir::Send, CAir::Periodic, CAir::Recv, CAir::Local3],
    &[CAir::Plain, CAir::Send, CAir::Recv],
    &[CAir::Send, CAir::Plain, CAir::Recv],
    &[CAir::Send, CAir::Recv, CAir::Plain],
    &[CAir::Send, CAir::Recv],
    &[CAir::Plain, CAir::Step],
    &[CAir::Step, CAir::Send, CAir::Recv, CAir::Plain],
    &[CAir::Step],
    &[CAir::Recv, CAir::Step, CAir::Send],
];

fn ext_words(x: &Challenge) -> Vec<u64> {
    crate::gprog::f_to_u64s::<F, Challenge>(x)
}

fn corrupt(v: &mut [Challenge], pos: usize, seed: u64) {
    let mut rng = crate::core::prng::Rng::new(seed, "pos", pos as u64);
    if let Some(x) = v.get_mut(pos) {
        let mut d = if crate::gprog::is_base::<F, Challenge>(x) { Challenge::from(F::from_u64(1 + rng.below(F::ORDER_U64 - 1))) } else { crate::gprog::rand_f::<F, Challenge>(&mut rng) };
        if d == Challenge::ZERO {
            d = Challenge::ONE;
        }
        *x += d;
    }
}

/// Residue that selects the uni-STARK AIR kind for this FRI shape and height.
pub fn uni_kind_index(s: &FriShape, log_n: usize) -> usize {
    (s.num_queries + s.cap_height + 3 * s.log_blowup + s.commit_pow_bits + log_n) % N_UNI_KINDS
}

fn uni_kind(s: &FriShape, log_n: usize) -> CAir {
    match uni_kind_index(s, log_n) {
        6 => CAir::Quint,
        0 => CAir::Plain,
        1 => CAir::Step,
        2 if log_n >= 3 => CAir::Periodic,
        2 => CAir::Step,
        3 => CAir::Pub,
        4 => CAir::Prep { log_rows: log_n as u8, next: false },
        _ => CAir::Prep { log_rows: log_n as u8, next: true },
    }
}


macro_rules! custom_flavor_types {
    (plain) => {
        pub use p3_test_utils::koala_bear_params::MyConfig;
        pub type RecMmcs = RecValMmcs<F, DIGEST_ELEMS, MyHash, MyCompress>;
        pub type InnerFri = FriProofTargets<F, Challenge, RecExtensionValMmcs<F, Challenge, DIGEST_ELEMS, RecMmcs>, InputProofTargets<F, Challenge, RecMmcs>, Witness<F>>;
    };
    (zk) => {
        pub use crate::rec::kb4zk::{InnerFri, MyConfig, RecMmcs};
    };
}

macro_rules! custom_private {
    (plain, $r:expr, $ids:expr, $op:expr) => {
        set_fri_mmcs_private_data::<F, Challenge, ChallengeMmcs, MyMmcs, MyHash, MyCompress, DIGEST_ELEMS>($r, $ids, $op, P2)
    };
    (zk, $r:expr, $ids:expr, $op:expr) => {
        set_fri_mmcs_private_data::<F, Challenge, ChallengeMmcs, MyMmcs, MyHash, MyCompress, DIGEST_ELEMS>($r, $ids, &($op).1, P2)
    };
}

macro_rules! custom_universe {
    ($modname:ident, $uname:expr, $flavor:ident, $recmod:ident, $minblow:expr) => {
        pub mod $modname {
            use super::*;
            custom_flavor_types!($flavor);

            /// Verifier-side common data of one custom batch: the AIR list and the lookup contexts.
            pub struct Common {
                pub airs: Vec<CAir>,
                pub data: CommonData<MyConfig>,
                /// the verifier's public values, one list per instance
                pub pvs: Vec<Vec<F>>,
            }

            fn clone_common(c: &CommonData<MyConfig>) -> CommonData<MyConfig> {
                CommonData::new(
                    c.preprocessed.as_ref().map(|g| p3_batch_stark::common::GlobalPreprocessed { commitment: g.commitment.clone(), instances: g.instances.clone(), matrix_to_instance: g.matrix_to_instance.clone() }),
                    c.lookups.clone(),
                )
            }

            pub struct Built {
                pub circuit: p3_circuit::Circuit<Challenge>,
                pub vi: BatchStarkVerifierInputsBuilder<MyConfig, MerkleCapTargets<F, DIGEST_ELEMS>, InnerFri>,
                pub ids: Vec<p3_circuit::NonPrimitiveOpId>,
            }

            pub struct UniBuilt {
                pub circuit: p3_circuit::Circuit<Challenge>,
                pub vi: StarkVerifierInputsBuilder<MyConfig, MerkleCapTargets<F, DIGEST_ELEMS>, InnerFri>,
                pub ids: Vec<p3_circuit::NonPrimitiveOpId>,
            }

            /// The verifier's side of the uni-STARK arm: which AIR it verifies and, for `Prep`, its
            /// preprocessed verifying key. Fixed by `uni_prove_fib` for the run (one run = one thread).
            #[derive(Clone)]
            struct UniCtx {
                air: UAir,
                vk: Option<PreprocessedVerifierKey<MyConfig>>,
            }

            thread_local! {
                static UNI: std::cell::RefCell<Option<UniCtx>> = const { std::cell::RefCell::new(None) };
            }

            fn uni_ctx() -> Result<UniCtx, String> {
                UNI.with(|u| u.borrow().clone()).ok_or_else(|| "no uni context".to_string())
            }

            pub struct U;

            impl RecUni for U {
                const NAME: &'static str = $uname;
                const MIN_LOG_BLOWUP: usize = $minblow;
                type Val = F;
                type UniProof = p3_uni_stark::Proof<MyConfig>;
                type BatchProof = BatchProof<MyConfig>;
                type Common = Common;
                type UniBuilt = UniBuilt;
                type BatchBuilt = Built;

                fn uni_prove_fib(s: &FriShape, log_n: usize) -> (Self::UniProof, Vec<F>) {
                    let air = UAir(uni_kind(s, log_n));
                    let config = crate::rec::$recmod::config(s);
                    let trace = trace_for(air.0, 1 << log_n);
                    let pis = pvs_for(air.0, 1 << log_n);
                    let pre = setup_preprocessed(&config, &air, log_n);
                    let proof = prove_with_preprocessed(&config, &air, trace, &pis, pre.as_ref().map(|(pd, _)| pd));
                    UNI.with(|u| *u.borrow_mut() = Some(UniCtx { air, vk: pre.map(|(_, vk)| vk) }));
                    (proof, pis)
                }
                fn uni_native(s: &FriShape, proof: &Self::UniProof, pis: &[F]) -> Result<(), String> {
                    let ctx = uni_ctx()?;
                    match observe(|| verify_with_preprocessed(&crate::rec::$recmod::config(s), &ctx.air, proof, pis, ctx.vk.as_ref()).map_err(|e| format!("{e:?}"))) {
                        Ok(r) => r,
                        Err(p) => Err(format!("panic: {p}")),
                    }
                }
                fn uni_build(s: &FriShape, proof: &Self::UniProof, n_pis: usize) -> Result<UniBuilt, CircuitVerdict> {
                    let ctx = uni_ctx().map_err(CircuitVerdict::BuildErr)?;
                    let config = crate::rec::$recmod::config(s);
                    let built = observe(|| {
                        let mut cb = CircuitBuilder::<Challenge>::new();
                        cb.enable_poseidon2_perm::<KoalaBearD4Width16, _>(generate_poseidon2_trace::<Challenge, KoalaBearD4Width16>, p3_koala_bear::default_koalabear_poseidon2_16());
                        cb.enable_recompose::<F>(generate_recompose_trace::<F, Challenge>);
                        let vi = StarkVerifierInputsBuilder::<MyConfig, MerkleCapTargets<F, DIGEST_ELEMS>, InnerFri>::allocate(&mut cb, proof, ctx.vk.as_ref().map(|vk| &vk.commitment), n_pis);
                        let params = FriVerifierParams::with_mmcs(s.log_blowup, s.log_final_poly_len, s.commit_pow_bits, s.query_pow_bits, P2);
                        let ids = verify_p3_uni_proof_circuit::<UAir, MyConfig, MerkleCapTargets<F, DIGEST_ELEMS>, InputProofTargets<F, Challenge, RecMmcs>, InnerFri, _, WIDTH, RATE>(
                            &config,
                            &ctx.air,
                            &mut cb,
                            &vi.proof_targets,
                            &vi.air_public_targets,
                            &vi.preprocessed_commit,
                            &params,
                            P2,
                        )
                        .map_err(|e| format!("{e:?}"))?;
                        let circuit = cb.build().map_err(|e| format!("{e:?}"))?;
                        Ok::<_, String>(UniBuilt { circuit, vi, ids })
                    });
                    match built {
                        Ok(Ok(x)) => Ok(x),
                        Ok(Err(e)) => Err(CircuitVerdict::BuildErr(e)),
                        Err(p) => Err(CircuitVerdict::BuildPanic(p)),
                    }
                }
                fn uni_run_mut(b: &UniBuilt, proof: &Self::UniProof, pis: &[F], m: Option<(bool, usize, u64)>) -> (CircuitVerdict, CircuitInfo) {
                    let mut info = CircuitInfo { ops: b.circuit.ops.len(), public_len: b.circuit.public_flat_len, private_len: b.circuit.private_flat_len, ..Default::default() };
                    let ran = observe(|| {
                        let ctx = uni_ctx()?;
                        let (mut pubs, mut privs) = b.vi.pack_values(pis, proof, &ctx.vk.as_ref().map(|vk| vk.commitment.clone()));
                        if let Some((is_pub, pos, seed)) = m {
                            if is_pub { corrupt(&mut pubs, pos, seed) } else { corrupt(&mut privs, pos, seed) }
                        }
                        let pp: Vec<u64> = pubs.iter().flat_map(ext_words).collect();
                        let pq: Vec<u64> = privs.iter().flat_map(ext_words).collect();
                        let mut r = b.circuit.runner();
                        r.set_public_inputs(&pubs).map_err(|e| format!("{e:?}"))?;
                        r.set_private_inputs(&privs).map_err(|e| format!("{e:?}"))?;
                        custom_private!($flavor, &mut r, &b.ids, &proof.opening_proof).map_err(|e| format!("private data: {e}"))?;
                        r.run().map_err(|e| format!("{e:?}"))?;
                        Ok::<_, String>((pp, pq))
                    });
                    match ran {
                        Ok(Ok((pp, pq))) => {
                            info.packed_public = pp;
                            info.packed_private = pq;
                            (CircuitVerdict::Accept, info)
                        }
                        Ok(Err(e)) => (CircuitVerdict::RunErr(e), info),
                        Err(p) => (CircuitVerdict::RunPanic(p), info),
                    }
                }
                fn uni_pack(b: &UniBuilt, proof: &Self::UniProof, pis: &[F]) -> Result<(Vec<u64>, Vec<u64>), String> {
                    let ctx = uni_ctx()?;
                    observe(|| {
                        let (pubs, privs) = b.vi.pack_values(pis, proof, &ctx.vk.as_ref().map(|vk| vk.commitment.clone()));
                        (pubs.iter().flat_map(ext_words).collect(), privs.iter().flat_map(ext_words).collect())
                    })
                }
                fn ext_degree() -> usize {
                    4
                }
                fn gen_program(rng: &mut crate::core::prng::Rng, _cfg: &crate::gprog::GenCfg) -> crate::gprog::Program {
                    // the "program" only carries entropy for the instance list: n public inputs
                    let n = rng.range(0, 63);
                    crate::gprog::Program { calls: (0..n).map(|_| crate::gprog::Call::Public).collect(), publics: (0..n).map(|_| vec![1]).collect(), privates: vec![] }
                }

                fn batch_prove(s: &FriShape, p: &crate::gprog::Program, public_lanes: usize, alu_lanes: usize) -> Result<(Self::BatchProof, Common, usize), String> {
                    let e = p.calls.len();
                    let mut airs: Vec<CAir> = ORDERS[e % ORDERS.len()].to_vec();
                    // heights: the bus pair shares one height; the others differ from it
                    let min_log = s.log_final_poly_len + 1;
                    let bus_log = min_log + (e / 8) % 3;
                    let other_log = min_log + (public_lanes + alu_lanes) % 4;
                    let log_of = |a: &CAir| match a {
                        CAir::Send | CAir::Recv => bus_log,
                        CAir::Periodic => other_log.max(3),
                        _ => other_log,
                    };
                    for a in airs.iter_mut() {
                        if let CAir::Prep { log_rows, .. } = a {
                            *log_rows = other_log as u8;
                        }
                    }
                    let r = observe(|| {
                        let config = crate::rec::$recmod::config(s);
                        let traces: Vec<RowMajorMatrix<F>> = airs.iter().map(|a| trace_for(*a, 1 << log_of(a))).collect();
                        let pvs: Vec<Vec<F>> = airs.iter().zip(traces.iter()).map(|(a, t)| pvs_for(*a, p3_matrix::Matrix::height(t))).collect();
                        let instances: Vec<StarkInstance<'_, MyConfig, CAir>> = airs.iter().zip(traces.iter()).zip(pvs.iter()).map(|((air, trace), pv)| StarkInstance { air, trace, public_values: pv.clone() }).collect();
                        let pd = ProverData::from_instances(&config, &instances);
                        let proof = prove_batch(&config, &instances, &pd);
                        (proof, clone_common(&pd.common), pvs)
                    });
                    match r {
                        Ok((proof, data, pvs)) => Ok((proof, Common { airs: airs.clone(), data, pvs }, airs.len())),
                        Err(p) => Err(format!("panic: {p}")),
                    }
                }

                fn batch_native(s: &FriShape, proof: &Self::BatchProof, common: &Common) -> Result<(), String> {
                    let pvs = &common.pvs;
                    match observe(|| verify_batch(&crate::rec::$recmod::config(s), &common.airs, proof, pvs, &common.data).map_err(|e| format!("{e:?}"))) {
                        Ok(r) => r,
                        Err(p) => Err(format!("panic: {p}")),
                    }
                }

                fn common_for(_proof: &Self::BatchProof, honest: &Common) -> Common {
                    Common { airs: honest.airs.clone(), data: clone_common(&honest.data), pvs: honest.pvs.clone() }
                }

                fn batch_pv_len(c: &Common) -> usize {
                    c.pvs.iter().map(Vec::len).sum()
                }

                fn batch_pv_fault(c: &Common, pos: usize, seed: u64) -> Option<Common> {
                    let mut pvs = c.pvs.clone();
                    let x = pvs.iter_mut().flatten().nth(pos)?;
                    *x += F::from_u64(1 + crate::core::prng::Rng::new(seed, "pv", pos as u64).below(F::ORDER_U64 - 1));
                    Some(Common { airs: c.airs.clone(), data: clone_common(&c.data), pvs })
                }

                fn batch_build(s: &FriShape, proof: &Self::BatchProof, common: &Common) -> Result<Built, CircuitVerdict> {
                    let config = crate::rec::$recmod::config(s);
                    // `allocate` asserts that it is given one public-value count per proof instance: the
                    // verifier knows its AIR list and has to compare first, as verify_p3_batch_proof_circuit
                    // does for circuit proofs
                    if proof.opened_values.instances.len() != common.airs.len() {
                        return Err(CircuitVerdict::BuildErr(format!("InvalidProofShape: {} instances for {} AIRs", proof.opened_values.instances.len(), common.airs.len())));
                    }
                    let built = observe(|| {
                        let mut cb = CircuitBuilder::<Challenge>::new();
                        cb.enable_poseidon2_perm::<KoalaBearD4Width16, _>(generate_poseidon2_trace::<Challenge, KoalaBearD4Width16>, p3_koala_bear::default_koalabear_poseidon2_16());
                        cb.enable_recompose::<F>(generate_recompose_trace::<F, Challenge>);
                        let counts: Vec<usize> = common.pvs.iter().map(Vec::len).collect();
                        let vi = BatchStarkVerifierInputsBuilder::<MyConfig, MerkleCapTargets<F, DIGEST_ELEMS>, InnerFri>::allocate(&mut cb, proof, &common.data, &counts);
                        let params = FriVerifierParams::with_mmcs(s.log_blowup, s.log_final_poly_len, s.commit_pow_bits, s.query_pow_bits, P2);
                        let ids = verify_batch_circuit::<_, _, _, _, _, _, _, WIDTH, RATE>(&config, &common.airs, &mut cb, &vi.proof_targets, &vi.air_public_targets, &params, &vi.common_data, &LogUpGadget::new(), P2)
                            .map_err(|e| format!("{e:?}"))?;
                        let circuit = cb.build().map_err(|e| format!("{e:?}"))?;
                        Ok::<_, String>(Built { circuit, vi, ids })
                    });
                    match built {
                        Ok(Ok(x)) => Ok(x),
                        Ok(Err(e)) => Err(CircuitVerdict::BuildErr(e)),
                        Err(p) => Err(CircuitVerdict::BuildPanic(p)),
                    }
                }

                fn batch_run_mut(b: &Built, proof: &Self::BatchProof, common: &Common, m: Option<(bool, usize, u64)>) -> (CircuitVerdict, CircuitInfo) {
                    let mut info = CircuitInfo { ops: b.circuit.ops.len(), public_len: b.circuit.public_flat_len, private_len: b.circuit.private_flat_len, ..Default::default() };
                    let ran = observe(|| {
                        let (mut pubs, mut privs) = b.vi.pack_values(&common.pvs, proof, &common.data);
                        if let Some((is_pub, pos, seed)) = m {
                            if is_pub { corrupt(&mut pubs, pos, seed) } else { corrupt(&mut privs, pos, seed) }
                        }
                        let pp: Vec<u64> = pubs.iter().flat_map(ext_words).collect();
                        let pq: Vec<u64> = privs.iter().flat_map(ext_words).collect();
                        let mut r = b.circuit.runner();
                        r.set_public_inputs(&pubs).map_err(|e| format!("{e:?}"))?;
                        r.set_private_inputs(&privs).map_err(|e| format!("{e:?}"))?;
                        custom_private!($flavor, &mut r, &b.ids, &proof.opening_proof).map_err(|e| format!("private data: {e}"))?;
                        r.run().map_err(|e| format!("{e:?}"))?;
                        Ok::<_, String>((pp, pq))
                    });
                    match ran {
                        Ok(Ok((pp, pq))) => {
                            info.packed_public = pp;
                            info.packed_private = pq;
                            (CircuitVerdict::Accept, info)
                        }
                        Ok(Err(e)) => (CircuitVerdict::RunErr(e), info),
                        Err(p) => (CircuitVerdict::RunPanic(p), info),
                    }
                }

                fn batch_pack(b: &Built, proof: &Self::BatchProof, common: &Common) -> Result<(Vec<u64>, Vec<u64>), String> {
                    observe(|| {
                        let (pubs, privs) = b.vi.pack_values(&common.pvs, proof, &common.data);
                        (pubs.iter().flat_map(ext_words).collect(), privs.iter().flat_map(ext_words).collect())
                    })
                }
            }
        }
    };
}

custom_universe!(plain, "U-KB4-CUSTOM", plain, kb4, 1);
custom_universe!(zk, "U-KB4-CUSTOM-ZK", zk, kb4zk, 1);
