//! psim — seeded single-process simulation of compiler → prover → transport → verifier for
//! Plonky3-recursion, with a hash-order seam and fault plans. See /verif/DESIGN.md.

mod cdigest;
mod chal;
mod core;
mod bus;
mod frionly;
mod gprog;
mod layers;
mod opsat;
mod pipe;
mod rec;
mod reccustom;
mod tabeval;
mod props;
mod tree;
mod uni;

use std::collections::BTreeMap;
use std::path::PathBuf;

use crate::core::report::{Ctx, Tier};

fn main() {
    let args: Vec<String> = std::env::args().collect();
    if args.len() < 2 {
        eprintln!("usage: psim <Cxx|selftest> [--tier quick|thorough] [--replay file] [k=v ...]");
        std::process::exit(2);
    }
    let prop = args[1].clone();
    let mut tier = match std::env::var("VERIF_TIER").as_deref() {
        Ok("thorough") => Tier::Thorough,
        _ => Tier::Quick,
    };
    let mut replay = None;
    let mut kv = BTreeMap::new();
    let mut i = 2;
    while i < args.len() {
        match args[i].as_str() {
            "--tier" => {
                i += 1;
                tier = if args.get(i).map(|s| s.as_str()) == Some("thorough") { Tier::Thorough } else { Tier::Quick };
            }
            "--replay" => {
                i += 1;
                replay = args.get(i).map(PathBuf::from);
            }
            s => {
                if let Some((k, v)) = s.split_once('=') {
                    kv.insert(k.to_string(), v.to_string());
                }
            }
        }
        i += 1;
    }
    let seed: u64 = std::env::var("VERIF_SEED").ok().and_then(|s| s.parse().ok()).unwrap_or(1);
    let root = std::env::var("VERIF_ROOT").map(PathBuf::from).unwrap_or_else(|_| PathBuf::from("/verif"));
    crate::core::pool::install_quiet_panic_hook();
    let ctx = Ctx { prop: prop.clone(), tier, seed, root, replay, start: std::time::Instant::now(), args: kv };
    println!("psim property={} tier={} VERIF_SEED={}", prop, tier.name(), seed);
    let code = match prop.as_str() {
        "C01" => props::c01::main(&ctx),
        "C02" => props::c02::main(&ctx),
        "C03" => props::c03::main(&ctx),
        "C04" | "C11" => props::c04::main(&ctx),
        "C05" => props::c05::main(&ctx),
        "C06" | "C12" => props::c06::main(&ctx),
        "C07" => props::c07::main(&ctx),
        "C08" => props::c08::main(&ctx),
        "C09" => props::c10::main(&ctx, true),
        "C10" => props::c10::main(&ctx, false),
        "C14" => props::c14::main(&ctx),
        "C15" => props::c15::main(&ctx),
        "C16" => props::c16::main(&ctx),
        "C17" => props::c17::main(&ctx),
        "C18" => props::c18::main(&ctx),
        "C19" => props::c19::main(&ctx),
        _ => {
            eprintln!("unknown property {prop}");
            2
        }
    };
    std::process::exit(code);
}
