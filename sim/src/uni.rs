//! Universes: concrete monomorphisations of the generic stack (field, circuit element field,
//! permutation, PCS). Everything in here is real repo / p3 code; the trait only hides p3's bounds.

use std::collections::BTreeMap;

use p3_circuit::tables::Traces;
use p3_circuit::{Circuit, CircuitBuilder};
use p3_field::{ExtensionField, PrimeField64};
use serde::Serialize;
use serde::de::DeserializeOwned;

/// Builder options: which non-primitive tables are enabled on the circuit builder.
#[derive(Clone, Copy, Debug, Default, PartialEq, Eq)]
pub struct BuilderOpts {
    pub poseidon: bool,
    pub recompose: bool,
}

/// Prover-side configuration draw (the swarm knobs).
#[derive(Clone, Debug, PartialEq, Eq)]
pub struct ProverCfg {
    pub public_lanes: usize,
    pub alu_lanes: usize,
    pub horner_k: usize,
    pub min_height: usize,
    pub profile_standard: bool,
    pub npo: BuilderOpts,
    pub debug_lookups: bool,
    /// register the width-32 Poseidon2 table (arity-4 MMCS circuits) instead of the width-16 one
    pub poseidon_w32: bool,
    /// register the Poseidon1 width-16 table of the universe's field instead of the Poseidon2 one
    pub poseidon1: bool,
    /// register the width-16 *and* the KoalaBear width-32 Poseidon2 tables (mixed circuits)
    pub poseidon_both: bool,
    /// register the recompose table before the Poseidon table (table order in the proof is the
    /// registration order, not the lexicographic order of the op types)
    pub npo_reversed: bool,
    /// recompose operations packed per row of the recompose tables (TablePacking::with_npo_lanes
    /// override; the registered table provers / AIR builders keep their default of 1)
    pub recompose_lanes: usize,
}
impl Default for ProverCfg {
    fn default() -> Self {
        Self {
            public_lanes: 1,
            alu_lanes: 1,
            horner_k: 2,
            min_height: 1,
            profile_standard: true,
            npo: BuilderOpts::default(),
            debug_lookups: false,
            poseidon_w32: false,
            poseidon1: false,
            poseidon_both: false,
            npo_reversed: false,
            recompose_lanes: 1,
        }
    }
}
impl ProverCfg {
    pub fn to_json(&self) -> serde_json::Value {
        serde_json::json!({"public_lanes": self.public_lanes, "alu_lanes": self.alu_lanes, "horner_k": self.horner_k,
            "min_height": self.min_height, "profile_standard": self.profile_standard,
            "poseidon": self.npo.poseidon, "recompose": self.npo.recompose, "poseidon_w32": self.poseidon_w32, "poseidon1": self.poseidon1, "poseidon_both": self.poseidon_both, "npo_reversed": self.npo_reversed, "recompose_lanes": self.recompose_lanes})
    }
    pub fn from_json(v: &serde_json::Value) -> Self {
        let g = |k: &str, d: usize| v.get(k).and_then(|x| x.as_u64()).map(|x| x as usize).unwrap_or(d);
        let b = |k: &str, d: bool| v.get(k).and_then(|x| x.as_bool()).unwrap_or(d);
        Self {
            public_lanes: g("public_lanes", 1),
            alu_lanes: g("alu_lanes", 1),
            horner_k: g("horner_k", 2),
            min_height: g("min_height", 1),
            profile_standard: b("profile_standard", true),
            npo: BuilderOpts { poseidon: b("poseidon", false), recompose: b("recompose", false) },
            debug_lookups: false,
            poseidon_w32: b("poseidon_w32", false),
            poseidon1: b("poseidon1", false),
            poseidon_both: b("poseidon_both", false),
            npo_reversed: b("npo_reversed", false),
            recompose_lanes: g("recompose_lanes", 1),
        }
    }
    pub fn swarm(rng: &mut crate::core::prng::Rng, npo: BuilderOpts) -> Self {
        Self {
            public_lanes: *rng.pick(&[1, 1, 2, 3, 4, 8]),
            alu_lanes: *rng.pick(&[1, 1, 2, 3, 4, 8]),
            horner_k: *rng.pick(&[2, 2, 3, 4, 5]),
            min_height: *rng.pick(&[1, 1, 2, 8, 32]),
            profile_standard: true,
            npo,
            debug_lookups: false,
            poseidon_w32: false,
            poseidon1: false,
            poseidon_both: false,
            npo_reversed: false,
            recompose_lanes: if npo.recompose { *rng.pick(&[1, 1, 2, 3]) } else { 1 },
        }
    }
}

/// Poseidon1 table configuration of the field a Poseidon2 configuration belongs to.
pub fn p1_of(p2: p3_circuit::ops::Poseidon2Config) -> p3_circuit::ops::Poseidon1Config {
    use p3_circuit::ops::{Poseidon1Config as P1, Poseidon2Config as P2};
    if p2 == P2::BABY_BEAR_D4_W16 { P1::BABY_BEAR_D4_W16 } else { P1::KOALA_BEAR_D4_W16 }
}

/// What key generation produced, reduced to process-independent numbers.
#[derive(Clone, Debug, PartialEq, Eq)]
pub struct KeyInfo {
    pub degrees: Vec<usize>,
    pub primitive_cols: Vec<Vec<u64>>,
    pub npo_cols: BTreeMap<String, Vec<u64>>,
    pub commitment: Vec<u64>,
    pub air_order: Vec<String>,
}

/// Callback over the base-field table matrices (H2): (table index, width, values).
pub type Tamper<BF> = Box<dyn Fn(&mut [p3_matrix::dense::RowMajorMatrix<BF>]) + Send + Sync>;

pub trait CircuitUni: 'static {
    type BF: PrimeField64;
    type EF: ExtensionField<Self::BF> + Eq + core::hash::Hash + Send + Sync;
    type Keys;
    type Proof: Serialize + DeserializeOwned;
    const NAME: &'static str;
    const D: usize;

    fn builder(opts: BuilderOpts) -> CircuitBuilder<Self::EF>;
    fn keygen(circuit: &Circuit<Self::EF>, cfg: &ProverCfg) -> Result<Self::Keys, String>;
    fn key_info(keys: &Self::Keys) -> KeyInfo;
    fn prove(
        keys: &Self::Keys,
        traces: &Traces<Self::EF>,
        cfg: &ProverCfg,
        tamper: Option<Tamper<Self::BF>>,
    ) -> Result<Self::Proof, String>;
    /// `verify_all_tables::<EF>` with the verifier's own registered tables.
    fn verify(proof: &Self::Proof, cfg: &ProverCfg) -> Result<(), String>;
    /// Preprocessed commitment carried by the proof (for commitment binding by the verifier node).
    fn proof_commitment(proof: &Self::Proof) -> Vec<u64>;
    /// Evaluate every table's AIR constraints row by row on the given main matrices (p3's
    /// `DebugConstraintBuilder`, no proof): per table, `None` if satisfied, else (row, failures).
    fn constraint_check(keys: &Self::Keys, mats: &[p3_matrix::dense::RowMajorMatrix<Self::BF>]) -> Vec<Option<(usize, String)>>;
    /// Verifier-side manifest check: a `VerifierManifest` describing `expected` (the proof shape the
    /// verifier knows its circuit produces) applied to `received`.
    fn manifest_matches(expected: &Self::Proof, received: &Self::Proof) -> Result<(), String>;
    /// The ALU table's preprocessed matrix exactly as key generation commits to it.
    fn alu_prep(keys: &Self::Keys) -> Option<p3_matrix::dense::RowMajorMatrix<Self::BF>>;
    /// Serialize / deserialize through the in-tree wire format (postcard).
    fn postcard_roundtrip(proof: &Self::Proof) -> Result<Self::Proof, String>;
}

/// The main matrices the real prover is about to commit (captured through hook H2).
pub fn capture_matrices<U: CircuitUni>(
    keys: &U::Keys,
    traces: &Traces<U::EF>,
    cfg: &ProverCfg,
) -> Result<Vec<p3_matrix::dense::RowMajorMatrix<U::BF>>, String> {
    let store: std::sync::Arc<std::sync::Mutex<Vec<p3_matrix::dense::RowMajorMatrix<U::BF>>>> = Default::default();
    let s2 = store.clone();
    let tamper: Tamper<U::BF> = Box::new(move |m| {
        *s2.lock().unwrap() = m.to_vec();
    });
    U::prove(keys, traces, cfg, Some(tamper))?;
    let v = store.lock().unwrap().clone();
    Ok(v)
}

/// Verifier node: native verification + binding of the proof's preprocessed commitment to the
/// commitment the verifier obtained by compiling the circuit itself.
pub fn verifier_node<U: CircuitUni>(proof: &U::Proof, cfg: &ProverCfg, expected_commitment: &[u64]) -> Result<(), String> {
    if U::proof_commitment(proof) != expected_commitment {
        return Err("preprocessed commitment differs from the verifier's own".into());
    }
    U::verify(proof, cfg)
}

pub fn digest_key_info(k: &KeyInfo) -> u64 {
    let mut d = crate::core::prng::Digest::new();
    for x in &k.degrees {
        d.u64(*x as u64);
    }
    for c in &k.primitive_cols {
        d.u64(c.len() as u64);
        for x in c {
            d.u64(*x);
        }
    }
    for (n, c) in &k.npo_cols {
        d.str(n);
        d.u64(c.len() as u64);
        for x in c {
            d.u64(*x);
        }
    }
    for x in &k.commitment {
        d.u64(*x);
    }
    for a in &k.air_order {
        d.str(a);
    }
    d.finish()
}


/// Parameter modules the universes are built from: p3_test_utils' own, plus a KoalaBear module whose
/// PCS is the hiding one (HidingFriPcs over the plain MMCS; `is_zk() == 1`).
pub mod uparams {
    pub use p3_test_utils::{baby_bear_params, goldilocks_params, koala_bear_params, koala_bear_quintic_params};
    pub mod kb_zk_params {
        pub use p3_test_utils::koala_bear_params::{Challenge, ChallengeMmcs, Challenger, DIGEST_ELEMS, Dft, F, MyCompress, MyHash, MyMmcs, Perm, RATE, WIDTH};
        pub type MyPcs = p3_fri::HidingFriPcs<F, Dft, MyMmcs, ChallengeMmcs, rand::rngs::SmallRng>;
        pub type MyConfig = p3_uni_stark::StarkConfig<MyPcs, Challenge, Challenger>;
        pub fn make_test_config() -> MyConfig {
            let perm = p3_koala_bear::default_koalabear_poseidon2_16();
            let hash = MyHash::new(perm.clone());
            let compress = MyCompress::new(perm.clone());
            let val_mmcs = MyMmcs::new(hash, compress, 0);
            let challenge_mmcs = ChallengeMmcs::new(val_mmcs.clone());
            let fri_params = p3_fri::FriParameters::new_testing(challenge_mmcs, 0);
            let pcs = MyPcs::new(Dft::default(), val_mmcs, fri_params, 2, <rand::rngs::SmallRng as rand::SeedableRng>::seed_from_u64(0x5eed_0003));
            MyConfig::new(pcs, Challenger::new(perm))
        }
    }
}

macro_rules! uni_npo_prover {
    (yes, $p:ident, $cfg:ident, $d:expr, $p2cfg:expr) => {
        if $cfg.npo.recompose && $cfg.npo_reversed {
            $p.register_recompose_table::<$d>(false);
        }
        if $cfg.npo.poseidon && $cfg.poseidon_both {
            $p.register_poseidon2_table::<$d>($p2cfg);
            $p.register_poseidon2_table::<$d>(p3_circuit::ops::Poseidon2Config::KOALA_BEAR_D4_W32);
        } else if $cfg.npo.poseidon && $cfg.poseidon1 {
            $p.register_poseidon1_table::<$d>($crate::uni::p1_of($p2cfg));
        } else if $cfg.npo.poseidon {
            $p.register_poseidon2_table::<$d>(if $cfg.poseidon_w32 { p3_circuit::ops::Poseidon2Config::KOALA_BEAR_D4_W32 } else { $p2cfg });
        }
        if $cfg.npo.recompose && !$cfg.npo_reversed {
            $p.register_recompose_table::<$d>(false);
        }
    };
    (no, $p:ident, $cfg:ident, $d:expr, $p2cfg:expr) => {};
    // quintic circuit field with the base-field (D=1) permutation table
    (q5, $p:ident, $cfg:ident, $d:expr, $p2cfg:expr) => {
        if $cfg.npo.poseidon && $cfg.poseidon1 {
            $p.register_poseidon1_table::<5>(p3_circuit::ops::Poseidon1Config::KOALA_BEAR_D1_W16);
        } else if $cfg.npo.poseidon {
            $p.register_poseidon2_table::<5>($p2cfg);
        }
        if $cfg.npo.recompose {
            $p.register_recompose_table::<5>(true);
        }
    };
}
macro_rules! uni_npo_builder {
    (yes, $b:ident, $opts:ident, $p2params:ty, $defperm:path) => {
        if $opts.poseidon {
            $b.enable_poseidon2_perm::<$p2params, _>(p3_circuit::ops::generate_poseidon2_trace::<Self::EF, $p2params>, $defperm());
        }
        if $opts.recompose {
            $b.enable_recompose::<Self::BF>(p3_circuit::ops::generate_recompose_trace::<Self::BF, Self::EF>);
        }
    };
    (no, $b:ident, $opts:ident, $p2params:ty, $defperm:path) => {
        let _ = $opts;
    };
    (q5, $b:ident, $opts:ident, $p2params:ty, $defperm:path) => {
        if $opts.poseidon {
            $b.enable_poseidon2_perm_base::<$p2params, _>(p3_circuit::ops::generate_poseidon2_trace::<Self::EF, $p2params>, p3_test_utils::LiftPermToQuintic::<Self::BF, _, 16>::new($defperm()));
        }
        if $opts.recompose {
            $b.enable_recompose::<Self::BF>(p3_circuit::ops::generate_recompose_trace::<Self::BF, Self::EF>);
        }
    };
}
macro_rules! uni_npo_keygen {
    (yes, $cfg:ident, $npo_prep:ident, $air_builders:ident, $sc:ty, $d:expr) => {
        if $cfg.npo.recompose && $cfg.npo_reversed {
            $npo_prep.push(Box::new(p3_circuit_prover::RecomposePreprocessor::default()));
            $air_builders.extend(p3_circuit_prover::batch_stark_prover::recompose_air_builders::<$sc, $d>(1, false));
        }
        if $cfg.npo.poseidon && $cfg.poseidon_both {
            $npo_prep.push(Box::new(p3_circuit_prover::Poseidon2Preprocessor));
            $air_builders.extend(p3_circuit_prover::batch_stark_prover::poseidon2_air_builders_for_configs::<$sc, $d>(vec![p3_circuit::ops::Poseidon2Config::KOALA_BEAR_D4_W16, p3_circuit::ops::Poseidon2Config::KOALA_BEAR_D4_W32]));
        } else if $cfg.npo.poseidon && $cfg.poseidon1 {
            $npo_prep.push(Box::new(p3_circuit_prover::Poseidon1Preprocessor));
            $air_builders.extend(p3_circuit_prover::batch_stark_prover::poseidon1_air_builders::<$sc, $d>());
        } else if $cfg.npo.poseidon {
            $npo_prep.push(Box::new(p3_circuit_prover::Poseidon2Preprocessor));
            $air_builders.extend(p3_circuit_prover::batch_stark_prover::poseidon2_air_builders::<$sc, $d>());
        }
        if $cfg.npo.recompose && !$cfg.npo_reversed {
            $npo_prep.push(Box::new(p3_circuit_prover::RecomposePreprocessor::default()));
            $air_builders.extend(p3_circuit_prover::batch_stark_prover::recompose_air_builders::<$sc, $d>(1, false));
        }
    };
    (no, $cfg:ident, $npo_prep:ident, $air_builders:ident, $sc:ty, $d:expr) => {};
    (q5, $cfg:ident, $npo_prep:ident, $air_builders:ident, $sc:ty, $d:expr) => {
        if $cfg.npo.poseidon && $cfg.poseidon1 {
            $npo_prep.push(Box::new(p3_circuit_prover::Poseidon1Preprocessor));
            $air_builders.extend(p3_circuit_prover::batch_stark_prover::poseidon1_air_builders_d5::<$sc>());
        } else if $cfg.npo.poseidon {
            $npo_prep.push(Box::new(p3_circuit_prover::Poseidon2Preprocessor));
            $air_builders.extend(p3_circuit_prover::batch_stark_prover::poseidon2_air_builders_d5::<$sc>());
        }
        if $cfg.npo.recompose {
            $npo_prep.push(Box::new(p3_circuit_prover::RecomposePreprocessor::new(true)));
            $air_builders.extend(p3_circuit_prover::batch_stark_prover::recompose_air_builders::<$sc, 5>(1, true));
        }
    };
}

macro_rules! binomial_universe {
    ($name:ident, $uname:expr, $params:ident, $mkcfg:path, $efty:ty, $d:expr, $npo:ident, $p2cfg:expr, $p2params:ty, $defperm:path) => {
        pub struct $name;
        impl $name {
            pub fn packing(cfg: &ProverCfg) -> p3_circuit_prover::TablePacking {
                let p = p3_circuit_prover::TablePacking::new(cfg.public_lanes, cfg.alu_lanes).with_horner_pack_k(cfg.horner_k).with_min_trace_height(cfg.min_height);
                if cfg.recompose_lanes > 1 {
                    p.with_npo_lanes(p3_circuit::ops::NpoTypeId::recompose(), cfg.recompose_lanes).with_npo_lanes(p3_circuit::ops::NpoTypeId::recompose_with_coeff_lookups(), cfg.recompose_lanes)
                } else {
                    p
                }
            }
            pub fn config() -> crate::uni::uparams::$params::MyConfig {
                $mkcfg()
            }
            #[allow(clippy::type_complexity)]
            pub fn prover(cfg: &ProverCfg) -> p3_circuit_prover::BatchStarkProver<crate::uni::uparams::$params::MyConfig> {
                let mut p = p3_circuit_prover::BatchStarkProver::new(Self::config()).with_table_packing(Self::packing(cfg));
                if cfg.debug_lookups {
                    p = p.with_debug_lookups();
                }
                uni_npo_prover!($npo, p, cfg, $d, $p2cfg);
                p
            }
        }
        impl CircuitUni for $name {
            type BF = crate::uni::uparams::$params::F;
            type EF = $efty;
            type Keys = (
                p3_circuit_prover::CircuitProverData<crate::uni::uparams::$params::MyConfig>,
                Vec<usize>,
                Vec<String>,
                Vec<p3_circuit_prover::common::CircuitTableAir<crate::uni::uparams::$params::MyConfig, $d>>,
            );
            type Proof = p3_circuit_prover::BatchStarkProof<crate::uni::uparams::$params::MyConfig>;
            const NAME: &'static str = $uname;
            const D: usize = $d;

            fn builder(opts: BuilderOpts) -> CircuitBuilder<Self::EF> {
                let mut b = CircuitBuilder::<Self::EF>::new();
                uni_npo_builder!($npo, b, opts, $p2params, $defperm);
                b
            }

            fn keygen(circuit: &Circuit<Self::EF>, cfg: &ProverCfg) -> Result<Self::Keys, String> {
                use p3_circuit_prover::common::{NpoPreprocessor, get_airs_and_degrees_with_prep};
                type SC = crate::uni::uparams::$params::MyConfig;
                let packing = Self::packing(cfg);
                let mut npo_prep: Vec<Box<dyn NpoPreprocessor<Self::BF>>> = Vec::new();
                let mut air_builders = Vec::new();
                uni_npo_keygen!($npo, cfg, npo_prep, air_builders, SC, $d);
                let profile = if cfg.profile_standard {
                    p3_circuit_prover::ConstraintProfile::Standard
                } else {
                    p3_circuit_prover::ConstraintProfile::default()
                };
                let (airs_degrees, prim, npo) =
                    get_airs_and_degrees_with_prep::<SC, Self::EF, $d>(circuit, &packing, &npo_prep, &air_builders, profile)
                        .map_err(|e| format!("{e:?}"))?;
                let order: Vec<String> = airs_degrees
                    .iter()
                    .map(|(a, _)| match a {
                        p3_circuit_prover::common::CircuitTableAir::Const(_) => "const".to_string(),
                        p3_circuit_prover::common::CircuitTableAir::Public(_) => "public".to_string(),
                        p3_circuit_prover::common::CircuitTableAir::Alu(_) => "alu".to_string(),
                        p3_circuit_prover::common::CircuitTableAir::Dynamic(_) => "dynamic".to_string(),
                    })
                    .collect();
                let (airs, degrees): (Vec<_>, Vec<usize>) = airs_degrees.into_iter().unzip();
                let config = Self::config();
                // a hiding PCS commits to randomised traces of twice the height
                let ext_degrees: Vec<usize> = degrees.iter().map(|d| d + p3_uni_stark::StarkGenericConfig::is_zk(&config)).collect();
                let pd = p3_batch_stark::ProverData::from_airs_and_degrees(&config, &airs, &ext_degrees);
                Ok((p3_circuit_prover::CircuitProverData::new(pd, prim, npo), degrees, order, airs))
            }

            fn key_info(keys: &Self::Keys) -> KeyInfo {
                let (cpd, degrees, order, _) = keys;
                let common = cpd.common_data();
                let commitment: Vec<u64> = common
                    .preprocessed
                    .as_ref()
                    .map(|g| {
                        let v = serde_json::to_value(&g.commitment).unwrap();
                        let mut out = Vec::new();
                        crate::tree::collect_numbers(&v, &mut out);
                        out
                    })
                    .unwrap_or_default();
                KeyInfo {
                    degrees: degrees.clone(),
                    primitive_cols: cpd
                        .primitive_columns
                        .iter()
                        .map(|c| c.iter().map(|x| x.as_canonical_u64()).collect())
                        .collect(),
                    npo_cols: cpd
                        .non_primitive_columns
                        .iter()
                        .map(|(k, v)| (format!("{k:?}"), v.iter().map(|x| x.as_canonical_u64()).collect()))
                        .collect(),
                    commitment,
                    air_order: order.clone(),
                }
            }

            fn prove(
                keys: &Self::Keys,
                traces: &Traces<Self::EF>,
                cfg: &ProverCfg,
                tamper: Option<Tamper<Self::BF>>,
            ) -> Result<Self::Proof, String> {
                let mut p = Self::prover(cfg);
                if let Some(t) = tamper {
                    p = p.with_verif_trace_tamper(t);
                }
                p.prove_all_tables(traces, &keys.0).map_err(|e| format!("{e:?}"))
            }

            fn verify(proof: &Self::Proof, cfg: &ProverCfg) -> Result<(), String> {
                let p = Self::prover(cfg);
                p.verify_all_tables::<Self::EF>(proof).map_err(|e| format!("{e:?}"))
            }

            fn constraint_check(keys: &Self::Keys, mats: &[p3_matrix::dense::RowMajorMatrix<Self::BF>]) -> Vec<Option<(usize, String)>> {
                keys.3
                    .iter()
                    .zip(mats.iter())
                    .map(|(air, m)| {
                        type Ch = <crate::uni::uparams::$params::MyConfig as p3_uni_stark::StarkGenericConfig>::Challenge;
                        use p3_circuit_prover::common::CircuitTableAir as T;
                        use p3_test_utils::air_satisfaction::check_air_satisfies as chk;
                        match crate::core::pool::observe(|| match air {
                            T::Const(a) => chk::<Self::BF, Ch, _>(a, m, &[]),
                            T::Public(a) => chk::<Self::BF, Ch, _>(a, m, &[]),
                            T::Alu(a) => chk::<Self::BF, Ch, _>(a, m, &[]),
                            T::Dynamic(_) => Ok(()),
                        }) {
                            Ok(Ok(())) => None,
                            Ok(Err((row, msg))) => Some((row, msg)),
                            Err(p) => Some((usize::MAX, format!("panic: {p}"))),
                        }
                    })
                    .collect()
            }

            fn manifest_matches(expected: &Self::Proof, received: &Self::Proof) -> Result<(), String> {
                use p3_circuit_prover::manifest::{ExpectedNpoEntry, VerifierManifest};
                let reduction = p3_circuit_prover::air::AluExtMulKind::resolve(expected.ext_degree, expected.w_binomial, expected.alu_quintic_trinomial).ok_or("no reduction")?;
                let m = VerifierManifest::<Self::BF> {
                    ext_degree: expected.ext_degree,
                    reduction,
                    alu_variant: expected.alu_variant,
                    expected_npo: expected.non_primitives.iter().map(|e| ExpectedNpoEntry { op_type: e.op_type.clone(), air_variant: e.air_variant, public_values_len: e.public_values.len() }).collect(),
                };
                m.matches(received).map_err(|e| format!("{e:?}"))
            }

            fn alu_prep(keys: &Self::Keys) -> Option<p3_matrix::dense::RowMajorMatrix<Self::BF>> {
                keys.3.iter().find_map(|air| match air {
                    p3_circuit_prover::common::CircuitTableAir::Alu(a) => p3_air::BaseAir::<Self::BF>::preprocessed_trace(a),
                    _ => None,
                })
            }

            fn postcard_roundtrip(proof: &Self::Proof) -> Result<Self::Proof, String> {
                let bytes = postcard::to_allocvec(proof).map_err(|e| format!("{e:?}"))?;
                postcard::from_bytes(&bytes).map_err(|e| format!("{e:?}"))
            }

            fn proof_commitment(proof: &Self::Proof) -> Vec<u64> {
                proof
                    .stark_common
                    .preprocessed
                    .as_ref()
                    .map(|g| {
                        let v = serde_json::to_value(&g.commitment).unwrap();
                        let mut out = Vec::new();
                        crate::tree::collect_numbers(&v, &mut out);
                        out
                    })
                    .unwrap_or_default()
            }
        }
    };
}

binomial_universe!(
    Kb4,
    "U-KB4",
    koala_bear_params,
    p3_test_utils::koala_bear_params::make_test_config,
    p3_field::extension::BinomialExtensionField<p3_koala_bear::KoalaBear, 4>,
    4,
    yes,
    p3_circuit::ops::Poseidon2Config::KOALA_BEAR_D4_W16,
    p3_poseidon2_circuit_air::KoalaBearD4Width16,
    p3_koala_bear::default_koalabear_poseidon2_16
);
binomial_universe!(
    Bb4,
    "U-BB4",
    baby_bear_params,
    p3_test_utils::baby_bear_params::make_test_config,
    p3_field::extension::BinomialExtensionField<p3_baby_bear::BabyBear, 4>,
    4,
    yes,
    p3_circuit::ops::Poseidon2Config::BABY_BEAR_D4_W16,
    p3_poseidon2_circuit_air::BabyBearD4Width16,
    p3_baby_bear::default_babybear_poseidon2_16
);

binomial_universe!(
    Kb4zk,
    "U-KB4-ZK",
    kb_zk_params,
    crate::uni::uparams::kb_zk_params::make_test_config,
    p3_field::extension::BinomialExtensionField<p3_koala_bear::KoalaBear, 4>,
    4,
    yes,
    p3_circuit::ops::Poseidon2Config::KOALA_BEAR_D4_W16,
    p3_poseidon2_circuit_air::KoalaBearD4Width16,
    p3_koala_bear::default_koalabear_poseidon2_16
);
// Universes without non-primitive tables (other extension degrees and reductions of the ALU table).
binomial_universe!(
    Bb5,
    "U-BB5",
    baby_bear_params,
    p3_test_utils::baby_bear_params::make_test_config,
    p3_field::extension::BinomialExtensionField<p3_baby_bear::BabyBear, 5>,
    5,
    no,
    p3_circuit::ops::Poseidon2Config::BABY_BEAR_D4_W16,
    p3_poseidon2_circuit_air::BabyBearD4Width16,
    p3_baby_bear::default_babybear_poseidon2_16
);
binomial_universe!(
    Kb5q,
    "U-KB5Q",
    koala_bear_quintic_params,
    p3_test_utils::koala_bear_quintic_params::make_test_config,
    p3_field::extension::QuinticTrinomialExtensionField<p3_koala_bear::KoalaBear>,
    5,
    q5,
    p3_circuit::ops::Poseidon2Config::KOALA_BEAR_D1_W16,
    p3_circuit::ops::KoalaBearD1Width16,
    p3_koala_bear::default_koalabear_poseidon2_16
);
binomial_universe!(
    Kb8,
    "U-KB8",
    koala_bear_params,
    p3_test_utils::koala_bear_params::make_test_config,
    p3_field::extension::BinomialExtensionField<p3_koala_bear::KoalaBear, 8>,
    8,
    no,
    p3_circuit::ops::Poseidon2Config::KOALA_BEAR_D4_W16,
    p3_poseidon2_circuit_air::KoalaBearD4Width16,
    p3_koala_bear::default_koalabear_poseidon2_16
);
binomial_universe!(
    Kb1,
    "U-KB1",
    koala_bear_params,
    p3_test_utils::koala_bear_params::make_test_config,
    p3_koala_bear::KoalaBear,
    1,
    no,
    p3_circuit::ops::Poseidon2Config::KOALA_BEAR_D4_W16,
    p3_poseidon2_circuit_air::KoalaBearD4Width16,
    p3_koala_bear::default_koalabear_poseidon2_16
);
binomial_universe!(
    Gl2,
    "U-GL2",
    goldilocks_params,
    gl_make_test_config,
    p3_field::extension::BinomialExtensionField<p3_goldilocks::Goldilocks, 2>,
    2,
    no,
    p3_circuit::ops::Poseidon2Config::BABY_BEAR_D4_W16,
    p3_poseidon2_circuit_air::BabyBearD4Width16,
    p3_baby_bear::default_babybear_poseidon2_16
);

pub fn gl_make_test_config() -> p3_test_utils::goldilocks_params::MyConfig {
    use p3_test_utils::goldilocks_params::*;
    let mut rng = <rand::rngs::SmallRng as rand::SeedableRng>::seed_from_u64(1);
    let perm = Perm::new_from_rng_128(&mut rng);
    let hash = MyHash::new(perm.clone());
    let compress = MyCompress::new(perm.clone());
    let val_mmcs = MyMmcs::new(hash, compress, 0);
    let challenge_mmcs = ChallengeMmcs::new(val_mmcs.clone());
    let fri_params = p3_fri::FriParameters::new_testing(challenge_mmcs, 0);
    let pcs = MyPcs::new(Dft::default(), val_mmcs, fri_params);
    MyConfig::new(pcs, Challenger::new(perm))
}

/// Circuit-proof universe of run `idx` (degree-4 universes carry 7 of 12 runs).
pub fn uni_of(idx: u64) -> &'static str {
    match idx % 12 {
        0 | 2 | 4 => "U-KB4",
        10 => "U-KB4-ZK",
        1 | 3 | 11 => "U-BB4",
        5 => "U-BB5",
        6 => "U-KB5Q",
        7 => "U-KB8",
        8 => "U-KB1",
        _ => "U-GL2",
    }
}

/// `with_uni!(name, U, expr)`: evaluate `expr` with `U` bound to the universe type.
#[macro_export]
macro_rules! with_uni {
    ($name:expr, $U:ident, $body:expr) => {
        match $name {
            "U-BB4" => {
                type $U = $crate::uni::Bb4;
                $body
            }
            "U-BB5" => {
                type $U = $crate::uni::Bb5;
                $body
            }
            "U-KB5Q" => {
                type $U = $crate::uni::Kb5q;
                $body
            }
            "U-KB8" => {
                type $U = $crate::uni::Kb8;
                $body
            }
            "U-KB1" => {
                type $U = $crate::uni::Kb1;
                $body
            }
            "U-GL2" => {
                type $U = $crate::uni::Gl2;
                $body
            }
            "U-KB4-ZK" => {
                type $U = $crate::uni::Kb4zk;
                $body
            }
            _ => {
                type $U = $crate::uni::Kb4;
                $body
            }
        }
    };
}
