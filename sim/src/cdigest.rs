//! Canonical, process-independent digest of a compiled circuit (C18 observable).

use p3_circuit::{Circuit, Op};
use p3_field::{ExtensionField, PrimeField64};

use crate::core::prng::Digest;
use crate::gprog::f_to_u64s;

pub fn op_kind_name<F: p3_field::Field>(op: &Op<F>) -> String {
    match op {
        Op::Const { .. } => "Const".into(),
        Op::Public { .. } => "Public".into(),
        Op::Alu { kind, .. } => format!("Alu::{kind:?}"),
        Op::Hint { .. } => "Hint".into(),
        Op::NonPrimitiveOpWithExecutor { executor, .. } => format!("Npo::{:?}", executor.op_type()),
    }
}

/// Structural digest of `ops` only.
pub fn ops_digest<BF: PrimeField64, EF: ExtensionField<BF>>(c: &Circuit<EF>, d: &mut Digest) {
    d.u64(c.ops.len() as u64);
    for op in &c.ops {
        match op {
            Op::Const { out, val } => {
                d.u64(1);
                d.u64(out.0 as u64);
                for x in f_to_u64s::<BF, EF>(val) {
                    d.u64(x);
                }
            }
            Op::Public { out, public_pos } => {
                d.u64(2);
                d.u64(out.0 as u64);
                d.u64(*public_pos as u64);
            }
            Op::Alu { kind, a, b, c, out, intermediate_out } => {
                d.u64(3);
                d.u64(*kind as u64);
                d.u64(a.0 as u64);
                d.u64(b.0 as u64);
                d.u64(c.map(|x| x.0 as u64 + 1).unwrap_or(0));
                d.u64(out.0 as u64);
                d.u64(intermediate_out.map(|x| x.0 as u64 + 1).unwrap_or(0));
            }
            Op::Hint { inputs, outputs, executor } => {
                d.u64(4);
                d.u64(inputs.len() as u64);
                inputs.iter().for_each(|w| d.u64(w.0 as u64));
                d.u64(outputs.len() as u64);
                outputs.iter().for_each(|w| d.u64(w.0 as u64));
                d.str(&format!("{executor:?}"));
            }
            Op::NonPrimitiveOpWithExecutor { inputs, outputs, executor, op_id } => {
                d.u64(5);
                d.u64(op_id.0 as u64);
                for g in inputs.iter().chain(outputs.iter()) {
                    d.u64(g.len() as u64);
                    g.iter().for_each(|w| d.u64(w.0 as u64));
                }
                d.str(&format!("{:?}", executor.op_type()));
                // executor Debug may contain closures' addresses? use op_type + Debug filtered of pointers
                let dbg = format!("{executor:?}");
                if !dbg.contains("0x") {
                    d.str(&dbg);
                }
            }
        }
    }
}

/// Full circuit digest: ops, numbering, sorted maps, generator order.
pub fn circuit_digest<BF: PrimeField64, EF: ExtensionField<BF>>(c: &Circuit<EF>) -> u64 {
    let mut d = Digest::new();
    ops_digest::<BF, EF>(c, &mut d);
    d.u64(c.witness_count as u64);
    d.u64(c.public_flat_len as u64);
    d.u64(c.private_flat_len as u64);
    c.public_rows.iter().for_each(|w| d.u64(w.0 as u64));
    d.u64(0xFFFF);
    c.private_input_rows.iter().for_each(|w| d.u64(w.0 as u64));
    let mut e2w: Vec<(u32, u32)> = c.expr_to_widx.iter().map(|(e, w)| (e.0, w.0)).collect();
    e2w.sort();
    for (e, w) in e2w {
        d.u64(e as u64);
        d.u64(w as u64);
    }
    let mut t2w: Vec<(&String, u32)> = c.tag_to_witness.iter().map(|(t, w)| (t, w.0)).collect();
    t2w.sort();
    for (t, w) in t2w {
        d.str(t);
        d.u64(w as u64);
    }
    let mut t2o: Vec<(&String, u32)> = c.tag_to_op_id.iter().map(|(t, w)| (t, w.0)).collect();
    t2o.sort();
    for (t, w) in t2o {
        d.str(t);
        d.u64(w as u64);
    }
    if let Some(rw) = &c.witness_rewrite {
        let mut v: Vec<(u32, u32)> = rw.iter().map(|(a, b)| (a.0, b.0)).collect();
        v.sort();
        d.u64(v.len() as u64);
        for (a, b) in v {
            d.u64(a as u64);
            d.u64(b as u64);
        }
    }
    for g in &c.non_primitive_trace_generator_order {
        d.str(&format!("{g:?}"));
    }
    let mut en: Vec<String> = c.enabled_ops.keys().map(|k| format!("{k:?}")).collect();
    en.sort();
    en.iter().for_each(|s| d.str(s));
    d.finish()
}

/// Iteration-order fingerprint of `expr_to_widx` (reach probe: shows that the hash seam really
/// permutes iteration order).
pub fn iteration_fingerprint<EF>(c: &Circuit<EF>) -> u64 {
    let mut d = Digest::new();
    for (e, _) in c.expr_to_widx.iter().take(64) {
        d.u64(e.0 as u64);
    }
    d.finish()
}
