//! C01 — in-circuit STARK verification agrees with native verification.
//! Prover → transport (serde tree) → {native verifier, in-circuit verifier}. Every numeric leaf of
//! the serialized proof (and every public value) is corrupted, one fault at a time.
//! Two modes: *fixed* (circuit built once from the honest shape, tampered values packed into it —
//! what a next recursion layer with a fixed verifying key sees) and *rebuild* (circuit rebuilt
//! from the received proof — what a verifier who receives a proof does; the only mode in which
//! usize leaves such as degree_bits / log_arity make sense).

use serde_json::{Value, json};

use crate::core::prng::{Rng, mix};
use crate::core::report::{Ctx, RunOut, Spec, Tier};
use crate::gprog::GenCfg;
use crate::rec::{CircuitVerdict, FriShape, RecUni};
use crate::tree::{self, Path};

#[derive(Clone, Copy, Debug, PartialEq, Eq)]
pub enum Fault {
    Xor1,
    Add1,
    Zero,
    Random,
    SwapSibling,
}
pub const FAULTS: [Fault; 5] = [Fault::Xor1, Fault::Add1, Fault::Zero, Fault::Random, Fault::SwapSibling];
impl Fault {
    pub fn name(self) -> &'static str {
        match self {
            Fault::Xor1 => "leaf_xor1",
            Fault::Add1 => "leaf_add1",
            Fault::Zero => "leaf_zero",
            Fault::Random => "leaf_random",
            Fault::SwapSibling => "leaf_swap_sibling",
        }
    }
    pub fn from_name(s: &str) -> Option<Fault> {
        FAULTS.iter().copied().find(|f| f.name() == s)
    }
}

/// Apply a fault to the leaf at `path`; returns false if the fault does not change the tree.
pub fn apply_fault(t: &mut Value, path: &Path, f: Fault, rnd: u64) -> bool {
    let old = match tree::get(t, path).and_then(|v| v.as_u64()) {
        Some(x) => x,
        None => return false,
    };
    let new = match f {
        Fault::Xor1 => old ^ 1,
        Fault::Add1 => old.wrapping_add(1),
        Fault::Zero => {
            if old == 0 {
                1
            } else {
                0
            }
        }
        Fault::Random => {
            let r = rnd % (1u64 << 31);
            if r == old { r ^ 2 } else { r }
        }
        Fault::SwapSibling => {
            // swap with the next numeric sibling in the same array
            if let Some(crate::tree::Seg::Idx(i)) = path.last() {
                let mut sib = path.clone();
                *sib.last_mut().unwrap() = crate::tree::Seg::Idx(i + 1);
                let other = tree::get(t, &sib).and_then(|v| v.as_u64());
                match other {
                    Some(o) if o != old => {
                        *tree::get_mut(t, &sib).unwrap() = json!(old);
                        o
                    }
                    _ => return false,
                }
            } else {
                return false;
            }
        }
    };
    if new == old {
        return false;
    }
    *tree::get_mut(t, path).unwrap() = json!(new);
    true
}

pub struct CaseOut {
    pub native: Result<(), String>,
    pub circuit: CircuitVerdict,
    pub transport_rejected: bool,
}

/// Shape spec of one simulated run (serialisable: it is the replay workload).
#[derive(Clone, Debug, serde::Serialize, serde::Deserialize)]
pub struct ShapeSpec {
    pub universe: String,
    /// "uni" or "batch"
    pub kind: String,
    pub fri: FriShape,
    pub log_n: usize,
    pub program: Option<crate::gprog::Program>,
    pub public_lanes: usize,
    pub alu_lanes: usize,
    /// restrict faults to one part of the proof ("fri" = opening proof, claimed evaluations,
    /// commitments) and enumerate all fault kinds there
    #[serde(default)]
    pub focus: Option<String>,
}

pub fn draw_shape<R: RecUni>(rng: &mut Rng, tier: Tier, force_kind: Option<&str>) -> ShapeSpec {
    let mut fri = if rng.chance(1, 4) { FriShape::testing() } else { FriShape::swarm(rng) };
    fri.log_blowup = fri.log_blowup.max(R::MIN_LOG_BLOWUP);
    if R::MIN_LOG_BLOWUP > 1 && rng.chance(1, 3) {
        // hiding universes: a cap as tall as the last folded layers, so that late commit-phase
        // openings carry a salt (salted MMCS) but no sibling digests
        fri.cap_height = 2;
        fri.log_blowup = 2;
        fri.log_final_poly_len = 0;
    }
    let kind = force_kind.map(|s| s.to_string()).unwrap_or_else(|| if rng.chance(1, 2) && R::HAS_UNI { "uni".into() } else { "batch".into() });
    let mut log_n = rng.range(0, tier.pick(5, 7));
    if log_n < fri.log_final_poly_len + 1 {
        // keep degenerate heights, but FRI needs log_height > log_final_poly_len for a useful proof
        log_n = fri.log_final_poly_len + rng.range(0, 2);
    }
    let program = if kind == "batch" {
        let gcfg = GenCfg {
            min_calls: 4,
            max_calls: tier.pick(24, 60),
            hints: false,
            horner: *rng.pick(&[1, 0, 1]),
            creator_aliasing: false,
            claim_privates: true,
            div: true,
            recompose_npo: false,
        };
        Some(R::gen_program(rng, &gcfg))
    } else {
        None
    };
    ShapeSpec { universe: R::NAME.to_string(), kind, fri, log_n, program, public_lanes: *rng.pick(&[1, 2, 4]), alu_lanes: *rng.pick(&[1, 2, 4]), focus: None }
}

/// First few alphabetic words of a message: a stable error-class slug for finding keys.
fn slug(msg: &str) -> String {
    msg.split(|c: char| !c.is_alphabetic()).filter(|w| w.len() > 1).take(8).collect::<Vec<_>>().join("_")
}

fn verdict_pair(native: &Result<(), String>, c: &CircuitVerdict) -> String {
    format!("native={} circuit={}", if native.is_ok() { "accept" } else { "reject" }, c.class())
}

/// Run one shape: honest check, then fault enumeration. `only` restricts to one (mode, path, fault)
/// for replay.
pub fn run_shape<R: RecUni>(
    ctx_seed: u64,
    idx: u64,
    spec: &ShapeSpec,
    tier: Tier,
    only: Option<(&str, &str, Fault)>,
    out: &mut RunOut,
) {
    let mut rng = Rng::new(ctx_seed, "C01-faults", idx);
    let s = &spec.fri;
    let detail = |mode: &str, path: &str, fault: Fault| json!({"shape": spec, "idx": idx, "mode": mode, "leaf": path, "fault": fault.name()});
    if spec.kind == "uni" {
        let (proof, pis) = match crate::core::pool::observe(|| R::uni_prove_fib(s, spec.log_n)) {
            Ok(x) => x,
            Err(pm) => {
                if std::env::var("VERIF_DUMP_SKIPPED").is_ok() {
                    eprintln!("PROVERPANIC idx={idx} {} :: {}", serde_json::to_string(spec).unwrap_or_default(), pm.chars().take(300).collect::<String>());
                }
                out.count("honest_prover_panicked_shape_skipped");
                return;
            }
        };
        let honest_native = R::uni_native(s, &proof, &pis);
        let built = R::uni_build(s, &proof, pis.len());
        let honest_circuit = match &built {
            Ok(b) => R::uni_run(b, &proof, &pis).0,
            Err(v) => v.clone(),
        };
        out.evals += 1;
        out.count(&format!("honest_uni_{}", verdict_pair(&honest_native, &honest_circuit).replace(' ', "_")));
        if honest_native.is_ok() != honest_circuit.accepts() {
            if only.is_none() {
                out.violate(
                    format!("uni:honest:{}:{}", verdict_pair(&honest_native, &honest_circuit), slug(honest_circuit.msg())),
                    format!("honest proof: {} ({}; {})", verdict_pair(&honest_native, &honest_circuit), honest_native.clone().err().unwrap_or_default(), honest_circuit.msg().chars().take(200).collect::<String>()),
                    detail("honest", "", Fault::Xor1),
                );
            }
            return;
        }
        if honest_native.is_err() {
            out.count(&format!("honest_rejected_by_both_{}_{}", R::NAME, honest_native.clone().err().unwrap_or_default().split(|c: char| !c.is_alphanumeric()).filter(|x| !x.is_empty()).take(4).collect::<Vec<_>>().join("_")));
            if std::env::var("VERIF_DUMP_SKIPPED").is_ok() {
                eprintln!("SKIPPED idx={idx} {}", serde_json::to_string(spec).unwrap_or_default());
            }
            out.count("honest_rejected_by_both_shape_skipped");
            return;
        }
        let built = built.ok().unwrap();
        let tree0 = serde_json::to_value(&proof).unwrap();
        let leaves = tree::numeric_leaves(&tree0);
        out.count_n("uni_leaves", leaves.len() as u64);
        // public values first
        for (i, _) in pis.iter().enumerate() {
            for delta in [1u64, 2] {
                if let Some((m, _, _)) = only {
                    if m != "pis" {
                        continue;
                    }
                }
                let mut pis2 = pis.clone();
                pis2[i] += <R::Val as p3_field::PrimeCharacteristicRing>::from_u64(delta);
                let n = R::uni_native(s, &proof, &pis2);
                let c = R::uni_run(&built, &proof, &pis2).0;
                out.evals += 1;
                out.count("fault_public_value");
                out.distinct.insert(mix(crate::core::prng::fnv64(b"pis"), i as u64));
                if n.is_ok() != c.accepts() {
                    out.violate(format!("uni:pis:{}", verdict_pair(&n, &c)), format!("public value {i} + {delta}: {}", verdict_pair(&n, &c)), detail("pis", &format!("[{i}]"), Fault::Add1));
                }
            }
        }
        for path in &leaves {
            let meta = tree::is_meta_leaf(path);
            let pstr = tree::path_str(path);
            let class = tree::path_class(path);
            let fri_focus = spec.focus.as_deref() == Some("fri");
            if fri_focus && !(class.contains("opening_proof") || class.contains("opened_values") || class.contains("commitments")) {
                continue;
            }
            for f in FAULTS {
                for mode in ["fixed", "rebuild"] {
                    if let Some((m, p, ff)) = only {
                        if m != mode || p != pstr || ff != f {
                            continue;
                        }
                    } else if fri_focus {
                        if mode == "fixed" && meta {
                            continue;
                        }
                        if mode == "rebuild" && !meta && !rng.chance(1, tier.pick(12, 3)) {
                            continue;
                        }
                    } else {
                        // fixed mode: every value leaf x every fault. rebuild mode: every meta leaf x
                        // every fault, value leaves sampled.
                        if mode == "fixed" && meta {
                            continue;
                        }
                        if mode == "rebuild" && !meta && !rng.chance(1, tier.pick(40, 8)) {
                            continue;
                        }
                        if mode == "fixed" && tier == Tier::Quick && f != Fault::Add1 && !rng.chance(1, 4) {
                            continue;
                        }
                    }
                    if meta && f == Fault::Random && only.is_none() {
                        // a random 31-bit row/lane/degree count is C15/C16's "meta_huge" fault (it
                        // makes the builder allocate tens of GB and needs a crash-isolated worker)
                        continue;
                    }
                    let mut t = tree0.clone();
                    let rnd = mix(mix(ctx_seed, idx), crate::core::prng::fnv64(pstr.as_bytes()));
                    if !apply_fault(&mut t, path, f, rnd) {
                        out.count("fault_not_fired");
                        continue;
                    }
                    out.count(&format!("fired_{}", f.name()));
                    let p2: R::UniProof = match serde_json::from_value(t) {
                        Ok(p) => p,
                        Err(_) => {
                            out.count("rejected_at_transport");
                            continue;
                        }
                    };
                    let n = R::uni_native(s, &p2, &pis);
                    let c = if mode == "fixed" {
                        R::uni_run(&built, &p2, &pis).0
                    } else {
                        match R::uni_build(s, &p2, pis.len()) {
                            Ok(b) => R::uni_run(&b, &p2, &pis).0,
                            Err(v) => v,
                        }
                    };
                    out.evals += 1;
                    out.steps += 1;
                    out.distinct.insert(crate::core::prng::fnv64(format!("uni:{mode}:{class}").as_bytes()));
                    if c.panicked() {
                        out.count("circuit_side_panic_counted_as_reject");
                    }
                    if n.is_ok() {
                        out.count("tampered_but_native_accepts");
                    }
                    if n.is_ok() != c.accepts() {
                        out.violate(
                            format!("uni:{mode}:{class}:{}", verdict_pair(&n, &c)),
                            format!("leaf {pstr} {}: {} (native: {}; circuit: {})", f.name(), verdict_pair(&n, &c), n.clone().err().unwrap_or_default().chars().take(120).collect::<String>(), c.msg().chars().take(160).collect::<String>()),
                            detail(mode, &pstr, f),
                        );
                    }
                }
            }
        }
    } else {
        let program = spec.program.as_ref().unwrap();
        let (proof, common, _ops) = match R::batch_prove(s, program, spec.public_lanes, spec.alu_lanes) {
            Ok(x) => x,
            Err(e) => {
                out.count(&format!("honest_batch_prover_failed_{}", e.split(|c: char| !c.is_alphanumeric()).find(|x| !x.is_empty()).unwrap_or("x")));
                return;
            }
        };
        let honest_native = R::batch_native(s, &proof, &common);
        let built = R::batch_build(s, &proof, &common);
        let honest_circuit = match &built {
            Ok(b) => R::batch_run(b, &proof, &common).0,
            Err(v) => v.clone(),
        };
        out.evals += 1;
        out.count(&format!("honest_batch_{}", verdict_pair(&honest_native, &honest_circuit).replace(' ', "_")));
        if honest_native.is_ok() != honest_circuit.accepts() {
            if only.is_none() {
                out.violate(
                    format!("batch:honest:{}:{}", verdict_pair(&honest_native, &honest_circuit), slug(honest_circuit.msg())),
                    format!("honest proof: {} ({}; {})", verdict_pair(&honest_native, &honest_circuit), honest_native.clone().err().unwrap_or_default().chars().take(160).collect::<String>(), honest_circuit.msg().chars().take(200).collect::<String>()),
                    detail("honest", "", Fault::Xor1),
                );
            }
            return;
        }
        if honest_native.is_err() {
            out.count(&format!("honest_rejected_by_both_{}_{}", R::NAME, honest_native.clone().err().unwrap_or_default().split(|c: char| !c.is_alphanumeric()).filter(|x| !x.is_empty()).take(4).collect::<Vec<_>>().join("_")));
            if std::env::var("VERIF_DUMP_SKIPPED").is_ok() {
                eprintln!("SKIPPED idx={idx} {}", serde_json::to_string(spec).unwrap_or_default());
            }
            out.count("honest_rejected_by_both_shape_skipped");
            return;
        }
        let built = built.ok().unwrap();
        let tree0 = serde_json::to_value(&proof).unwrap();
        let leaves = tree::numeric_leaves(&tree0);
        out.count_n("batch_leaves", leaves.len() as u64);
        for path in &leaves {
            let meta = tree::is_meta_leaf(path);
            let pstr = tree::path_str(path);
            let class = tree::path_class(path);
            let fri_focus = spec.focus.as_deref() == Some("fri");
            if fri_focus && !(class.contains("opening_proof") || class.contains("opened_values") || class.contains("commitments")) {
                continue;
            }
            for f in FAULTS {
                for mode in ["fixed", "rebuild"] {
                    if let Some((m, p, ff)) = only {
                        if m != mode || p != pstr || ff != f {
                            continue;
                        }
                    } else if fri_focus {
                        if mode == "fixed" && meta {
                            continue;
                        }
                        if mode == "rebuild" && !meta && !rng.chance(1, tier.pick(12, 3)) {
                            continue;
                        }
                    } else {
                        if mode == "fixed" && meta {
                            continue;
                        }
                        if mode == "rebuild" && !meta && !rng.chance(1, tier.pick(60, 10)) {
                            continue;
                        }
                        if mode == "fixed" && tier == Tier::Quick && f != Fault::Add1 && !rng.chance(1, 6) {
                            continue;
                        }
                    }
                    if meta && f == Fault::Random && only.is_none() {
                        // a random 31-bit row/lane/degree count is C15/C16's "meta_huge" fault (it
                        // makes the builder allocate tens of GB and needs a crash-isolated worker)
                        continue;
                    }
                    let mut t = tree0.clone();
                    let rnd = mix(mix(ctx_seed, idx), crate::core::prng::fnv64(pstr.as_bytes()));
                    if !apply_fault(&mut t, path, f, rnd) {
                        out.count("fault_not_fired");
                        continue;
                    }
                    out.count(&format!("fired_{}", f.name()));
                    let p2: R::BatchProof = match serde_json::from_value(t) {
                        Ok(p) => p,
                        Err(_) => {
                            out.count("rejected_at_transport");
                            continue;
                        }
                    };
                    // both verifiers get the same (possibly faulted) common data
                    let common2 = R::common_for(&p2, &common);
                    let n = R::batch_native(s, &p2, &common);
                    let c = if mode == "fixed" {
                        R::batch_run(&built, &p2, &common2).0
                    } else {
                        match R::batch_build(s, &p2, &common2) {
                            Ok(b) => R::batch_run(&b, &p2, &common2).0,
                            Err(v) => v,
                        }
                    };
                    out.evals += 1;
                    out.steps += 1;
                    out.distinct.insert(crate::core::prng::fnv64(format!("batch:{mode}:{class}").as_bytes()));
                    if c.panicked() {
                        out.count("circuit_side_panic_counted_as_reject");
                    }
                    if n.is_ok() {
                        out.count("tampered_but_native_accepts");
                    }
                    if n.is_ok() != c.accepts() {
                        out.violate(
                            format!("batch:{mode}:{class}:{}", verdict_pair(&n, &c)),
                            format!("leaf {pstr} {}: {} (native: {}; circuit: {})", f.name(), verdict_pair(&n, &c), n.clone().err().unwrap_or_default().chars().take(120).collect::<String>(), c.msg().chars().take(160).collect::<String>()),
                            detail(mode, &pstr, f),
                        );
                    }
                }
            }
        }
        // the verifier's own public values (custom-AIR universe): each one altered
        for pos in 0..R::batch_pv_len(&common) {
            let pstr = format!("#pv{pos}");
            for mode in ["fixed", "rebuild"] {
                if let Some((m, p, _)) = only {
                    if m != mode || p != pstr {
                        continue;
                    }
                }
                let Some(c2) = R::batch_pv_fault(&common, pos, mix(ctx_seed, idx)) else { continue };
                out.count("fired_public_value");
                let n = R::batch_native(s, &proof, &c2);
                let c = if mode == "fixed" {
                    R::batch_run(&built, &proof, &c2).0
                } else {
                    match R::batch_build(s, &proof, &c2) {
                        Ok(b) => R::batch_run(&b, &proof, &c2).0,
                        Err(v) => v,
                    }
                };
                out.evals += 1;
                out.steps += 1;
                out.distinct.insert(crate::core::prng::fnv64(format!("batch:{mode}:public_value").as_bytes()));
                if n.is_ok() != c.accepts() {
                    out.violate(
                        format!("batch:{mode}:public_value:{}", verdict_pair(&n, &c)),
                        format!("public value {pos} altered: {} (native: {}; circuit: {})", verdict_pair(&n, &c), n.clone().err().unwrap_or_default().chars().take(120).collect::<String>(), c.msg().chars().take(160).collect::<String>()),
                        detail(mode, &pstr, Fault::Add1),
                    );
                }
            }
        }
    }
}

/// Number of ordinary runs; the runs after them sweep the custom-AIR universes systematically:
/// every AIR list of the batch arm and every AIR kind of the uni-STARK arm, once under each PCS.
pub fn base_runs(tier: Tier) -> u64 {
    tier.pick(32, 320)
}
pub const SWEEP_RUNS: u64 = 2 * (crate::reccustom::N_ORDERS + crate::reccustom::N_UNI_KINDS) as u64;

/// Shape of sweep run `k` (0..SWEEP_RUNS): custom-AIR universe (even k: TwoAdicFriPcs, odd k: the
/// hiding PCS), AIR list `k/2` of the batch arm, then uni-STARK AIR kind `k/2 - N_ORDERS`.
pub fn sweep_shape(rng: &mut Rng, tier: Tier, k: usize) -> (&'static str, ShapeSpec) {
    let uni = if k % 2 == 0 { "U-KB4-CUSTOM" } else { "U-KB4-CUSTOM-ZK" };
    let which = k / 2;
    let batch = which < crate::reccustom::N_ORDERS;
    let mut spec = crate::with_rec_universe!(uni, U, draw_shape::<U>(rng, tier, Some(if batch { "batch" } else { "uni" })));
    // the degree-5 AIR (lists 0..2, uni kind 6) needs the largest blow-up, above all with the
    // hiding PCS's extra constraint degree; a smaller one is a parameter error, not a shape
    if which < 3 || which == crate::reccustom::N_ORDERS + 6 {
        spec.fri.log_blowup = 3;
    }
    if batch {
        // the custom universes read the AIR list off the number of calls
        spec.program = Some(crate::gprog::Program { calls: (0..which).map(|_| crate::gprog::Call::Public).collect(), publics: (0..which).map(|_| vec![1]).collect(), privates: vec![] });
    } else {
        let want = which - crate::reccustom::N_ORDERS;
        let lo = (spec.fri.log_final_poly_len + 1).max(3);
        spec.log_n = (lo..lo + crate::reccustom::N_UNI_KINDS).find(|l| crate::reccustom::uni_kind_index(&spec.fri, *l) == want).unwrap_or(lo);
    }
    (uni, spec)
}

pub fn one_run(ctx: &Ctx, idx: u64, out: &mut RunOut) {
    let mut rng = Rng::new(ctx.seed, "C01", idx);
    foldhash::sim::set_seed(mix(ctx.seed, idx));
    let base = base_runs(ctx.tier);
    if idx >= base {
        let (uni, spec) = sweep_shape(&mut rng, ctx.tier, (idx - base) as usize);
        out.count("custom_air_sweep_runs");
        crate::with_rec_universe!(uni, U, run_shape::<U>(ctx.seed, idx, &spec, ctx.tier, None, out));
        return;
    }
    let uni = crate::rec::universe_of(idx);
    let spec = crate::with_rec_universe!(uni, U, draw_shape::<U>(&mut rng, ctx.tier, None));
    if out.samples.is_empty() {
        out.samples.push(json!({"idx": idx, "shape": {"universe": spec.universe, "kind": spec.kind, "fri": spec.fri, "log_n": spec.log_n, "lanes": [spec.public_lanes, spec.alu_lanes], "program_calls": spec.program.as_ref().map(|p| p.calls.len())}}));
    }
    crate::with_rec_universe!(uni, U, run_shape::<U>(ctx.seed, idx, &spec, ctx.tier, None, out));
}

pub fn replay(ctx: &Ctx, body: &Value) -> i32 {
    let d = &body["detail"];
    let spec: ShapeSpec = match serde_json::from_value(d["shape"].clone()) {
        Ok(s) => s,
        Err(e) => {
            eprintln!("harness error: bad replay file: {e}");
            return 2;
        }
    };
    let idx = d["idx"].as_u64().unwrap_or(0);
    let mode = d["mode"].as_str().unwrap_or("fixed").to_string();
    let leaf = d["leaf"].as_str().unwrap_or("").to_string();
    let fault = Fault::from_name(d["fault"].as_str().unwrap_or("leaf_add1")).unwrap_or(Fault::Add1);
    let seed = body["seed"].as_u64().unwrap_or(ctx.seed);
    foldhash::sim::set_seed(mix(seed, idx));
    let mut out = RunOut::default();
    let only = if mode == "honest" { None } else { Some((mode.as_str(), leaf.as_str(), fault)) };
    crate::with_rec_universe!(spec.universe.as_str(), U, run_shape::<U>(seed, idx, &spec, Tier::Thorough, only, &mut out));
    let key = body["key"].as_str().unwrap_or("");
    for v in &out.violations {
        if v.key == key {
            println!("VIOLATION property={} replay={}", ctx.prop, ctx.replay.as_ref().unwrap().display());
            println!("  key={} clause={}", v.key, v.clause);
            return 1;
        }
    }
    println!("replay did not reproduce key {key} (violations seen: {:?})", out.violations.iter().map(|v| &v.key).collect::<Vec<_>>());
    0
}

pub fn main(ctx: &Ctx) -> i32 {
    if let Some(path) = &ctx.replay {
        let body: Value = match std::fs::read_to_string(path).ok().and_then(|s| serde_json::from_str(&s).ok()) {
            Some(b) => b,
            None => {
                eprintln!("harness error: cannot read replay file");
                return 2;
            }
        };
        return replay(ctx, &body);
    }
    if let Some(path) = ctx.args.get("shape") {
        // diagnostic: run one shape given as a JSON file and print what happened
        let spec: ShapeSpec = match std::fs::read_to_string(path).ok().and_then(|s| serde_json::from_str(&s).ok()) {
            Some(s) => s,
            None => {
                eprintln!("harness error: cannot read shape file");
                return 2;
            }
        };
        let mut out = RunOut::default();
        crate::with_rec_universe!(spec.universe.as_str(), U, run_shape::<U>(ctx.seed, 0, &spec, ctx.tier, None, &mut out));
        println!("counters: {:?}", out.counters);
        for v in &out.violations {
            println!("violation: {} :: {}", v.key, v.clause.chars().take(300).collect::<String>());
        }
        return 0;
    }
    let runs: u64 = base_runs(ctx.tier) + SWEEP_RUNS;
    let res = crate::core::pool::run_jobs(runs, |idx| {
        let mut out = RunOut::default();
        one_run(ctx, idx, &mut out);
        let mut d = crate::core::prng::Digest::new();
        d.u64(out.evals);
        for (k, v) in &out.counters {
            d.str(k);
            d.u64(*v);
        }
        out.digest = d.finish();
        out
    });
    let outs = match res {
        Ok(o) => o,
        Err(e) => {
            eprintln!("harness error: {e}");
            return 2;
        }
    };
    let mut total = RunOut::default();
    for o in outs {
        total.merge(o);
    }
    crate::core::report::finish(
        ctx,
        &total,
        runs,
        Spec {
            level: "fault_enumeration",
            rule: "one run = one proof shape (universe U-KB4/U-BB4; uni-STARK Fibonacci AIR at trace heights 2^0..2^5/2^7 or batch-STARK proof of a seeded base-field circuit with random lane packing; FRI parameter swarm: blow-up 1-3, final poly log len 0-2, max arity log 1-4, 1-4 queries, commit/query PoW bits 0-8, cap height 0-2). The honest proof is serialized to a tree; fixed mode: every value leaf is corrupted (leaf_add1 always, the other four fault kinds sampled in quick / all in thorough) and packed into the circuit built for the honest shape; rebuild mode: every usize leaf x every fault kind plus sampled value leaves, circuit rebuilt from the received proof; plus every public value. Oracle: native accepts == circuit runs Ok. distinct = distinct (kind, mode, leaf class) triples.",
            exhaustive: false,
            assumptions: vec![
                "native p3 verifiers (p3_uni_stark::verify, verify_all_tables) are the oracle".into(),
                "both verifiers are handed the same (possibly faulted) common data; lookup contexts are taken from the honest common data because they are not serialized".into(),
                "a panic on either side counts as reject for this property (panics are C15's observable)".into(),
            ],
            components_real: vec!["p3_uni_stark::prove/verify", "BatchStarkProver::prove_all_tables/verify_all_tables", "verify_p3_uni_proof_circuit", "verify_p3_batch_proof_circuit", "pack_values", "set_fri_mmcs_private_data", "CircuitRunner"],
            components_stub: vec!["transport = serde_json tree of the real Serialize/Deserialize impls"],
            not_covered: vec!["ZK/hiding PCS", "arity-4 MMCS", "AIRs with preprocessed columns / lookups / periodic columns as base proofs (only Fibonacci uni-STARK and circuit batch proofs)", "Goldilocks, quintic", "WHIR, Circle PCS"],
            extra: json!({}),
        },
    )
}
