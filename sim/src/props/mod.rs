pub mod c02;
pub mod c03;
pub mod c10;
pub mod c18;
