pub mod c01;
pub mod c02;
pub mod c03;
pub mod c10;
pub mod c14;
pub mod c15;
pub mod c18;
