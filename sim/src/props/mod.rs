pub mod c02;
