//! C17 — recursion layers and aggregations chain, with or without cached preparation.
//! Call histories over a pool of proofs and cache slots. Ops: NEXT(i, cache mode) verifies pool[i]
//! in a next layer; AGG(i, j, slot mode) aggregates two pool members. Every output is verified
//! natively by a fresh verifier and joins the pool, so later steps consume it. Reference model:
//! the *uncached twin* — the same call with every cache argument `None`. Faults: stale cache offers
//! (a cache prepared for circuit A offered to circuit B, including B with identical size counters).

use std::rc::Rc;

use p3_circuit::Circuit;
use p3_circuit::test_utils::{FibonacciAir, generate_trace_rows};
use p3_circuit_prover::{BatchStarkProver, TablePacking};
use p3_field::PrimeCharacteristicRing;
use p3_recursion::{
    AggregationPrepCache, BatchOnly, FriRecursionBackend, NextLayerPrepCache, Poseidon2Config, ProveNextLayerParams, RecursionInput, RecursionOutput,
    build_and_prove_aggregation_layer, build_next_layer_circuit, build_next_layer_prep, prove_next_layer,
};
use serde_json::{Value, json};

use crate::cdigest::circuit_digest;
use crate::core::pool::observe;
use crate::core::prng::{Rng, mix};
use crate::core::report::{Ctx, RunOut, Spec};
use crate::rec::FriShape;

use crate::layers::PairAir;

thread_local! {
    /// set by a cached call whose slot was prepared by a backend with another recompose lane count
    static OTHER_PACKING: std::cell::Cell<bool> = const { std::cell::Cell::new(false) };
}

#[derive(Clone, Debug, serde::Serialize, serde::Deserialize, PartialEq, Eq)]
pub enum CacheMode {
    None,
    /// build a fresh cache for this very circuit into slot s and use it
    Build(usize),
    /// offer whatever is in slot s (possibly prepared for another circuit)
    Reuse(usize),
}

#[derive(Clone, Debug, serde::Serialize, serde::Deserialize, PartialEq, Eq)]
pub enum Step {
    Next(usize, CacheMode),
    Agg(usize, usize, CacheMode),
}

#[derive(Clone, Debug, serde::Serialize, serde::Deserialize)]
pub struct HistorySpec {
    pub fri: FriShape,
    /// base pool: (kind, log_n) with kind in {"fib","pair0".."pair3"} (pair2: row-local AIR, no next-row opening; pair3: periodic column)
    pub base: Vec<(String, usize)>,
    pub steps: Vec<Step>,
    pub seed: u64,
    /// "KB4" (KoalaBear, degree-4 backend) or "GL2" (Goldilocks, degree-2 backend)
    #[serde(default)]
    pub universe: String,
    /// each step draws its own recompose lane count (1, 1, 2 or 3) for the backend that proves it:
    /// a layer proven with one packing is consumed by a step configured with another
    #[serde(default)]
    pub vary_lanes: bool,
}

macro_rules! dispatch_input {
    ($r:expr, |$inp:ident, $A:ident| $body:expr) => {
        match $r {
            InputRef::Fib(p, pis) => {
                let air = FibonacciAir {};
                let $inp: RecursionInput<'_, Cfg, FibonacciAir> = RecursionInput::UniStark { proof: p, air: &air, public_inputs: pis.clone(), preprocessed_commit: None };
                type $A = FibonacciAir;
                $body
            }
            InputRef::Pair(p, a) => {
                let $inp: RecursionInput<'_, Cfg, PairAir> = RecursionInput::UniStark { proof: p, air: a, public_inputs: vec![], preprocessed_commit: None };
                type $A = PairAir;
                $body
            }
            InputRef::Batch(o) => {
                let $inp: RecursionInput<'_, Cfg, BatchOnly> = o.into_recursion_input::<BatchOnly>();
                type $A = BatchOnly;
                $body
            }
        }
    };
}

pub fn gen_history(rng: &mut Rng, tier_steps: usize) -> HistorySpec {
    let fri = FriShape { log_blowup: *rng.pick(&[1, 2]), log_final_poly_len: 0, max_log_arity: *rng.pick(&[1, 2, 3]), num_queries: *rng.pick(&[1, 2]), commit_pow_bits: 0, query_pow_bits: *rng.pick(&[0, 2]), cap_height: 0 };
    let base = vec![("fib".to_string(), 3), ("fib".to_string(), 5), ("pair0".to_string(), 3), ("pair1".to_string(), 3), ("pair2".to_string(), 3), ("pair3".to_string(), 4)];
    let n = rng.range(3, tier_steps);
    let mut steps = Vec::new();
    let mut pool = base.len();
    let mut max_depth_items = 0; // keep layer depth small: prefer base items
    for _ in 0..n {
        let pick = |rng: &mut Rng, pool: usize| if rng.chance(3, 4) { rng.usize_below(6.min(pool)) } else { rng.usize_below(pool) };
        let mode = match rng.below(4) {
            0 => CacheMode::None,
            1 => CacheMode::Build(rng.usize_below(2)),
            _ => CacheMode::Reuse(rng.usize_below(2)),
        };
        if rng.chance(3, 4) {
            steps.push(Step::Next(pick(rng, pool), mode));
        } else {
            steps.push(Step::Agg(pick(rng, pool), pick(rng, pool), mode));
            max_depth_items += 1;
        }
        pool += 1;
    }
    let _ = max_depth_items;
    // near-miss offers: a cache prepared for the pair0 verifier circuit offered to the pair1 one
    // (same size counters, different wiring), for NEXT and for AGG
    match rng.below(4) {
        0 => {
            steps.insert(0, Step::Next(2, CacheMode::Build(1)));
            steps.insert(1, Step::Next(3, CacheMode::Reuse(1)));
        }
        1 => {
            steps.insert(0, Step::Agg(2, 2, CacheMode::Build(0)));
            steps.insert(1, Step::Agg(3, 3, CacheMode::Reuse(0)));
        }
        2 => {
            // one slot shared along A, B, A with B of a different size (a miss that refreshes the
            // slot), as a depth-first aggregation schedule does
            steps.insert(0, Step::Agg(0, 1, CacheMode::Build(0)));
            steps.insert(1, Step::Agg(2, 2, CacheMode::Reuse(0)));
            steps.insert(2, Step::Agg(0, 1, CacheMode::Reuse(0)));
        }
        _ => {}
    }
    HistorySpec { fri, base, steps, seed: rng.next_u64(), universe: String::new(), vary_lanes: false }
}

macro_rules! c17_universe {
    ($modname:ident, $layers:ident, $params:ident, $d:expr, $w:expr, $r:expr, $p2cfg:expr) => {
        pub mod $modname {
            use p3_test_utils::$params::{Challenge, F};

            use super::*;
            use crate::layers::$layers::Cfg;

            const D: usize = $d;
            type Backend = p3_recursion::FriRecursionBackendForExt<{ $d }, { $w }, { $r }, Poseidon2Config>;

            enum Item {
                Fib(p3_uni_stark::Proof<Cfg>, Vec<F>),
                Pair(p3_uni_stark::Proof<Cfg>, PairAir),
                Batch(RecursionOutput<Cfg>),
            }

            impl Item {
                fn label(&self) -> String {
                    match self {
                        Item::Fib(..) => "fib".into(),
                        Item::Pair(_, a) => format!("pair{}", a.variant),
                        Item::Batch(_) => "layer".into(),
                    }
                }
            }

            /// `pack`: packing id of the step = recompose lanes + 16 * Horner k + 256 * optimized profile
            fn backend(pack: usize) -> Backend {
                FriRecursionBackend::<{ $w }, { $r }, _>::new($p2cfg).with_recompose_lanes((pack % 16).max(1)).for_extension_degree::<{ $d }>()
            }

            /// The step's proving parameters: Horner packing factor and constraint profile follow the packing id.
            fn params_for(fri: &FriShape, pack: usize) -> ProveNextLayerParams {
                let mut p = params(fri);
                let k = pack / 16 % 16;
                if k >= 2 {
                    p.table_packing = p.table_packing.with_horner_pack_k(k);
                }
                if pack / 256 == 1 {
                    p.constraint_profile = p3_circuit_prover::ConstraintProfile::RecursionOptimized;
                }
                p
            }

            fn params(fri: &FriShape) -> ProveNextLayerParams {
                ProveNextLayerParams { table_packing: TablePacking::new(1, 4).with_min_trace_height(fri.min_height().max(1 << (fri.log_final_poly_len + 1))), constraint_profile: p3_circuit_prover::ConstraintProfile::Standard }
            }

            fn native_verify(cfg: &Cfg, p: &ProveNextLayerParams, out: &RecursionOutput<Cfg>) -> Result<(), String> {
                match observe(|| {
                    let mut prover = BatchStarkProver::new(cfg.clone()).with_table_packing(p.table_packing.clone());
                    prover.register_poseidon2_table::<{ $d }>($p2cfg);
                    prover.register_recompose_table::<{ $d }>(false);
                    prover.verify_all_tables::<Challenge>(&out.0).map_err(|e| format!("{e:?}"))
                }) {
                    Ok(r) => r,
                    Err(p) => Err(format!("panic: {p}")),
                }
            }

            /// Outcome of one (possibly cached) call.
            enum CallOut {
                Ok(RecursionOutput<Cfg>),
                Err(String),
                Panic(String),
            }

            struct NextSlot {
                cache: NextLayerPrepCache<Cfg>,
                for_circuit: u64,
                /// recompose lanes of the backend the cache was prepared with
                lanes: usize,
            }

            fn with_input<R>(item: &Item, f: &mut dyn FnMut(InputRef<'_>) -> R) -> R {
                match item {
                    Item::Fib(p, pis) => f(InputRef::Fib(p, pis)),
                    Item::Pair(p, a) => f(InputRef::Pair(p, a)),
                    Item::Batch(o) => f(InputRef::Batch(o)),
                }
            }
            enum InputRef<'a> {
                Fib(&'a p3_uni_stark::Proof<Cfg>, &'a Vec<F>),
                Pair(&'a p3_uni_stark::Proof<Cfg>, &'a PairAir),
                Batch(&'a RecursionOutput<Cfg>),
            }

            /// NEXT step. Returns (uncached twin outcome, cached outcome if a cache was involved, was the offered cache stale?, circuit digest)
            fn do_next(cfg: &Cfg, p: &ProveNextLayerParams, item: &Item, mode: &CacheMode, slots: &mut Vec<Option<NextSlot>>, lanes: usize) -> (CallOut, Option<CallOut>, bool, u64, (u32, usize)) {
                let be = backend(lanes);
                with_input(item, &mut |r| {
                    dispatch_input!(r, |input, A| {
                        let built = observe(|| build_next_layer_circuit::<Cfg, A, _, D>(&input, cfg, &be));
                        let (circuit, vr): (Circuit<Challenge>, _) = match built {
                            Ok(Ok(x)) => x,
                            Ok(Err(e)) => return (CallOut::Err(format!("build: {e:?}")), None, false, 0, (0, 0)),
                            Err(pm) => return (CallOut::Panic(format!("build: {pm}")), None, false, 0, (0, 0)),
                        };
                        let dig = circuit_digest::<F, Challenge>(&circuit);
                        let counters = (circuit.witness_count, circuit.ops.len());
                        let call = |prep: Option<&NextLayerPrepCache<Cfg>>| -> CallOut {
                            match observe(|| prove_next_layer::<Cfg, A, _, D>(&input, &circuit, &vr, cfg, &be, p, prep)) {
                                Ok(Ok(o)) => CallOut::Ok(o),
                                Ok(Err(e)) => CallOut::Err(format!("{e:?}")),
                                Err(pm) => CallOut::Panic(pm),
                            }
                        };
                        let twin = call(None);
                        let (cached, stale) = match mode {
                            CacheMode::None => (None, false),
                            CacheMode::Build(s) => {
                                let prep = observe(|| build_next_layer_prep::<Cfg, A, _, D>(&circuit, cfg, &be, p));
                                match prep {
                                    Ok(Ok(c)) => {
                                        while slots.len() <= *s {
                                            slots.push(None);
                                        }
                                        slots[*s] = Some(NextSlot { cache: c, for_circuit: dig, lanes });
                                        (Some(call(slots[*s].as_ref().map(|x| &x.cache))), false)
                                    }
                                    Ok(Err(e)) => (Some(CallOut::Err(format!("prep: {e:?}"))), false),
                                    Err(pm) => (Some(CallOut::Panic(format!("prep: {pm}"))), false),
                                }
                            }
                            CacheMode::Reuse(s) => match slots.get(*s).and_then(|x| x.as_ref()) {
                                Some(slot) => {
                                    if slot.lanes != lanes {
                                        OTHER_PACKING.with(|c| c.set(true));
                                    }
                                    (Some(call(Some(&slot.cache))), slot.for_circuit != dig)
                                }
                                None => (None, false),
                            },
                        };
                        (twin, cached, stale, dig, counters)
                    })
                })
            }

            struct AggSlot {
                cache: Option<AggregationPrepCache<Cfg>>,
                for_circuit: Option<(usize, usize)>,
                lanes: usize,
            }

            fn do_agg(cfg: &Cfg, p: &ProveNextLayerParams, l: &Item, r: &Item, mode: &CacheMode, slots: &mut Vec<AggSlot>, pair_id: (usize, usize), lanes: usize) -> (CallOut, Option<CallOut>, bool) {
                let be = backend(lanes);
                with_input(l, &mut |lr| {
                    dispatch_input!(lr, |left, A1| {
                        with_input(r, &mut |rr| {
                            dispatch_input!(rr, |right, A2| {
                                let mut call = |cache: Option<&mut Option<AggregationPrepCache<Cfg>>>| -> CallOut {
                                    match observe(|| build_and_prove_aggregation_layer::<Cfg, A1, A2, _, D>(&left, &right, cfg, &be, p, cache)) {
                                        Ok(Ok(o)) => CallOut::Ok(o),
                                        Ok(Err(e)) => CallOut::Err(format!("{e:?}")),
                                        Err(pm) => CallOut::Panic(pm),
                                    }
                                };
                                let twin = call(None);
                                match mode {
                                    CacheMode::None => (twin, None, false),
                                    CacheMode::Build(s) | CacheMode::Reuse(s) => {
                                        while slots.len() <= *s {
                                            slots.push(AggSlot { cache: None, for_circuit: None, lanes });
                                        }
                                        if matches!(mode, CacheMode::Build(_)) {
                                            slots[*s] = AggSlot { cache: None, for_circuit: None, lanes };
                                        }
                                        let stale = slots[*s].for_circuit.is_some_and(|x| x != pair_id);
                                        if slots[*s].for_circuit.is_some() && slots[*s].lanes != lanes {
                                            OTHER_PACKING.with(|c| c.set(true));
                                        }
                                        let had = slots[*s].cache.is_some();
                                        let before = slots[*s].cache.as_ref().map(|c| Rc::as_ptr(&c.circuit_prover_data));
                                        let c = call(Some(&mut slots[*s].cache));
                                        let after = slots[*s].cache.as_ref().map(|c| Rc::as_ptr(&c.circuit_prover_data));
                                        if after.is_some() && after != before {
                                            // the call (re)populated the slot: from now on it belongs to this pair
                                            slots[*s].for_circuit = Some(pair_id);
                                            slots[*s].lanes = lanes;
                                        }
                                        (twin, Some(c), stale && had)
                                    }
                                }
                            })
                        })
                    })
                })
            }

            /// Execute a history; violations are pushed into `out`. `only_step` restricts the oracle to one step (replay).
            pub fn run_history(h: &HistorySpec, out: &mut RunOut) {
                let cfg = Cfg::new(h.fri);
                let p = params(&h.fri);
                let mut pool: Vec<Item> = Vec::new();
                for (kind, log_n) in &h.base {
                    let item = observe(|| match kind.as_str() {
                        "fib" => {
                            let n = 1usize << log_n;
                            let trace = generate_trace_rows::<F>(0, 1, n);
                            let (mut a, mut b) = (F::ZERO, F::ONE);
                            for _ in 1..n {
                                let c = a + b;
                                a = b;
                                b = c;
                            }
                            let pis = vec![F::ZERO, F::ONE, b];
                            let proof = p3_uni_stark::prove(&cfg, &FibonacciAir {}, trace, &pis);
                            Item::Fib(proof, pis)
                        }
                        k => {
                            let air = PairAir { variant: k.strip_prefix("pair").and_then(|d| d.parse().ok()).unwrap_or(1) };
                            let proof = p3_uni_stark::prove(&cfg, &air, air.trace(*log_n, h.seed), &[]);
                            Item::Pair(proof, air)
                        }
                    });
                    match item {
                        Ok(i) => pool.push(i),
                        Err(_) => {
                            out.count("base_proof_failed_history_skipped");
                            return;
                        }
                    }
                }
                let mut next_slots: Vec<Option<NextSlot>> = Vec::new();
                let mut agg_slots: Vec<AggSlot> = Vec::new();
                let mut stale_seen = false;
                for (si, step) in h.steps.iter().enumerate() {
                    out.evals += 1;
                    out.steps += 1;
                    let detail = json!({"history": h, "step": si});
                    OTHER_PACKING.with(|c| c.set(false));
                    // parameter changes between steps: recompose lanes, Horner packing factor,
                    // constraint profile of the layer proven by this step
                    let lanes = if h.vary_lanes {
                        let l = [1usize, 1, 2, 3][(mix(h.seed, si as u64) % 4) as usize];
                        let k = [2usize, 3, 4, 5][(mix(h.seed, 100 + si as u64) % 4) as usize];
                        let opt = usize::from(mix(h.seed, 200 + si as u64) % 2 == 0);
                        l + 16 * k + 256 * opt
                    } else {
                        1
                    };
                    if lanes != 1 {
                        out.count("step_with_non_default_packing");
                    }
                    let p = if h.vary_lanes { params_for(&h.fri, lanes) } else { p.clone() };
                    let (twin, cached, stale, what, counters) = match step {
                        Step::Next(i, mode) => {
                            if *i >= pool.len() {
                                continue;
                            }
                            out.count(&format!("next_input_{}", pool[*i].label()));
                            let (t, c, s, _dig, counters) = do_next(&cfg, &p, &pool[*i], mode, &mut next_slots, lanes);
                            (t, c, s, "next", counters)
                        }
                        Step::Agg(i, j, mode) => {
                            if *i >= pool.len() || *j >= pool.len() {
                                continue;
                            }
                            let (t, c, s) = do_agg(&cfg, &p, &pool[*i], &pool[*j], mode, &mut agg_slots, (*i, *j), lanes);
                            (t, c, s, "agg", (0, 0))
                        }
                    };
                    let _ = counters;
                    out.count(&format!("step_{what}"));
                    // uncached twin: must succeed and verify (chaining), whatever happened before
                    let twin_out = match twin {
                        CallOut::Ok(o) => match native_verify(&cfg, &p, &o) {
                            Ok(()) => Some(o),
                            Err(e) => {
                                out.violate(format!("uncached_{what}_does_not_verify"), format!("step {si} ({step:?}): uncached layer proof rejected natively: {e}"), detail.clone());
                                None
                            }
                        },
                        CallOut::Err(e) => {
                            out.violate(format!("uncached_{what}_failed:{}", e.split(|c: char| !c.is_alphanumeric()).find(|x| !x.is_empty()).unwrap_or("err")), format!("step {si} ({step:?}): uncached call failed: {}", e.chars().take(300).collect::<String>()), detail.clone());
                            None
                        }
                        CallOut::Panic(e) => {
                            out.violate(format!("uncached_{what}_panicked"), format!("step {si} ({step:?}): uncached call panicked: {}", e.chars().take(300).collect::<String>()), detail.clone());
                            None
                        }
                    };
                    if stale_seen && twin_out.is_some() {
                        out.count("progress_after_stale_offer");
                    }
                    // cached call vs twin
                    if let Some(c) = cached {
                        out.count(if stale { "cache_stale_offer" } else { "cache_valid_use" });
                        if stale {
                            stale_seen = true;
                        }
                        out.distinct.insert(crate::core::prng::fnv64(format!("{what}:{}:{stale}", match step { Step::Next(_, m) | Step::Agg(_, _, m) => format!("{m:?}").split('(').next().unwrap_or("").to_string() }).as_bytes()));
                        let kind = if stale { "stale" } else { "valid" };
                        match c {
                            CallOut::Ok(o) => match native_verify(&cfg, &p, &o) {
                                Ok(()) => {
                                    out.count(&format!("{kind}_cache_output_verifies"));
                                    // "refused or recomputed": a proof made through a stale cache must carry the
                                    // verifying data of the circuit actually proven (= the uncached twin's)
                                    if let Some(t) = &twin_out {
                                        let commit = |x: &RecursionOutput<Cfg>| {
                                            let mut v = Vec::new();
                                            if let Some(g) = x.0.stark_common.preprocessed.as_ref() {
                                                crate::tree::collect_numbers(&serde_json::to_value(&g.commitment).unwrap(), &mut v);
                                            }
                                            v
                                        };
                                        // a cache prepared for this circuit under another table packing
                                        // yields a proof of the same circuit with the cached packing:
                                        // its verifying data legitimately differs from the twin's
                                        let other_packing = OTHER_PACKING.with(|c| c.get());
                                        if other_packing && !stale {
                                            out.count("valid_cache_other_packing_output_verifies");
                                        } else if commit(&o) != commit(t) {
                                            out.violate(
                                                format!("{kind}_{what}_cache_used_silently"),
                                                format!("step {si} ({step:?}): the call accepted a cache prepared for a different circuit: its proof verifies against the OTHER circuit's preprocessed commitment (neither refused nor recomputed)"),
                                                detail.clone(),
                                            );
                                        } else if stale {
                                            out.count("stale_cache_recomputed");
                                        }
                                    }
                                }
                                Err(e) => {
                                    if twin_out.is_some() {
                                        out.violate(
                                            format!("{kind}_{what}_cache_unverifiable_proof"),
                                            format!("step {si} ({step:?}): call with a {kind} cache returned a proof that does not verify ({}), while the uncached call verifies", e.chars().take(200).collect::<String>()),
                                            detail.clone(),
                                        );
                                    }
                                }
                            },
                            CallOut::Err(e) => {
                                if stale {
                                    out.count("stale_cache_refused");
                                } else if twin_out.is_some() {
                                    out.violate(format!("valid_{what}_cache_call_failed"), format!("step {si} ({step:?}): call with a cache prepared for this very circuit failed: {}", e.chars().take(200).collect::<String>()), detail.clone());
                                }
                            }
                            CallOut::Panic(e) => {
                                out.violate(format!("{kind}_{what}_cache_panics"), format!("step {si} ({step:?}): call with a {kind} cache panicked instead of refusing or recomputing: {}", e.chars().take(200).collect::<String>()), detail.clone());
                            }
                        }
                    }
                    match twin_out {
                        Some(o) => pool.push(Item::Batch(o)),
                        None => return,
                    }
                }
                let _ = Rc::new(());
            }

        }
    };
}
c17_universe!(kb4, kb, koala_bear_params, 4, 16, 8, Poseidon2Config::KOALA_BEAR_D4_W16);
c17_universe!(gl2, gl, goldilocks_params, 2, 8, 4, Poseidon2Config::GOLDILOCKS_D2_W8);

/// Execute a history in the universe it names.
pub fn run_history(h: &HistorySpec, out: &mut RunOut) {
    if h.universe == "GL2" { gl2::run_history(h, out) } else { kb4::run_history(h, out) }
}

pub fn one_run(ctx: &Ctx, idx: u64, out: &mut RunOut) {
    let mut rng = Rng::new(ctx.seed, "C17", idx);
    foldhash::sim::set_seed(mix(ctx.seed, idx));
    let mut h = gen_history(&mut rng, ctx.tier.pick(6, 9));
    // one run in four over Goldilocks with the degree-2 backend
    h.universe = if idx % 4 == 3 { "GL2".into() } else { "KB4".into() };
    h.vary_lanes = idx % 2 == 1;
    if out.samples.is_empty() {
        out.samples.push(json!({"history": h}));
    }
    out.count(&format!("histories_{}", h.universe));
    run_history(&h, out);
}

pub fn main(ctx: &Ctx) -> i32 {
    if let Some(path) = &ctx.replay {
        let body: Value = match std::fs::read_to_string(path).ok().and_then(|s| serde_json::from_str(&s).ok()) {
            Some(b) => b,
            None => {
                eprintln!("harness error: cannot read replay file");
                return 2;
            }
        };
        let h: HistorySpec = match serde_json::from_value(body["detail"]["history"].clone()) {
            Ok(h) => h,
            Err(e) => {
                eprintln!("harness error: bad replay file: {e}");
                return 2;
            }
        };
        let mut out = RunOut::default();
        foldhash::sim::set_seed(1);
        run_history(&h, &mut out);
        let key = body["key"].as_str().unwrap_or("");
        for v in &out.violations {
            println!("  seen: {} — {}", v.key, v.clause.chars().take(200).collect::<String>());
        }
        if out.violations.iter().any(|v| v.key == key) {
            println!("VIOLATION property={} replay={}", ctx.prop, path.display());
            return 1;
        }
        println!("replay did not reproduce");
        return 0;
    }
    let runs: u64 = ctx.tier.pick(32, 320);
    let res = crate::core::pool::run_jobs(runs, |idx| {
        let mut out = RunOut::default();
        one_run(ctx, idx, &mut out);
        let mut d = crate::core::prng::Digest::new();
        d.u64(out.evals);
        for (k, v) in &out.counters {
            d.str(k);
            d.u64(*v);
        }
        out.digest = d.finish();
        out
    });
    let outs = match res {
        Ok(o) => o,
        Err(e) => {
            eprintln!("harness error: {e}");
            return 2;
        }
    };
    let mut total = RunOut::default();
    for o in outs {
        total.merge(o);
    }
    crate::core::report::finish(
        ctx,
        &total,
        runs,
        Spec {
            level: "exploration",
            rule: "one run = one call history of 2..4/6 steps over a pool that starts with four uni-STARK proofs (Fibonacci 2^3 and 2^5 rows; two 3-column AIRs whose verifier circuits have equal size counters but different wiring) and grows by every step's output: NEXT(i, cache None | Build(slot) | Reuse(slot)) and AGG(i, j, cache None | Build(slot) | Reuse(slot)), KoalaBear D=4, FRI parameter draw per history; each output is verified natively by a fresh verifier; reference model = the uncached twin of every call; stale offers (cache prepared for another circuit) must be refused or recomputed, never panic, never yield an unverifiable proof; after a stale offer later steps must still succeed. distinct = distinct (op, cache mode, stale?) combinations exercised.",
            exhaustive: false,
            assumptions: vec!["verifier = fresh BatchStarkProver with Poseidon2 + recompose tables registered, verify_all_tables::<Challenge>".into()],
            components_real: vec!["FriRecursionBackend", "build_next_layer_circuit", "build_next_layer_prep", "prove_next_layer", "build_and_prove_aggregation_layer", "AggregationPrepCache fingerprint", "p3_uni_stark::prove", "verify_all_tables"],
            components_stub: vec!["FriRecursionConfig wrapper copied from recursion/examples/common/mod.rs"],
            not_covered: vec!["parameter changes between steps (needs the cross-config API)", "ZK configs / cache_cross_config_seed", "BabyBear, Goldilocks, quintic", "serde round trip between layers"],
            extra: json!({}),
        },
    )
}
