//! C16 — proof metadata cannot weaken verification; serialization preserves the verdict.
//! Population: honest circuit proofs (primitive-only and with Poseidon2 + recompose tables) and
//! *invalid-trace* proofs (made by the byzantine prover of C04, rejected by the verifier). The
//! transport applies one or two metadata faults — every field outside `proof` set to other
//! well-formed values, table list reordered / dropped / duplicated — and round-trips every proof
//! through postcard and JSON. Oracle: no faulted version of an invalid-trace proof is accepted;
//! metadata contradicting the verifier's field parameters is rejected; no panic;
//! verdict(deser(ser(p))) == verdict(p).

use serde_json::{Value, json};

use crate::chal::{self, History};
use crate::core::pool::observe;
use crate::core::prng::{Rng, mix};
use crate::core::report::{Ctx, RunOut, Spec, Tier};
use crate::gprog::Program;
use crate::pipe;
use crate::props::c04;
use crate::tree::{self, Path, Seg};
use crate::uni::{BuilderOpts, CircuitUni, ProverCfg};

#[derive(Clone, Debug, serde::Serialize, serde::Deserialize)]
pub struct MFault {
    pub path: String,
    /// "num:<v>", "bool_flip", "str:<s>", "null", "unnull", "seq_swap01", "seq_drop_last", "seq_dup_last"
    pub what: String,
}

fn meta_leaves(t: &Value) -> Vec<(Path, Value)> {
    fn rec(v: &Value, cur: &mut Path, out: &mut Vec<(Path, Value)>) {
        match v {
            Value::Array(a) => {
                for (i, x) in a.iter().enumerate() {
                    cur.push(Seg::Idx(i));
                    rec(x, cur, out);
                    cur.pop();
                }
            }
            Value::Object(m) => {
                for (k, x) in m {
                    cur.push(Seg::Key(k.clone()));
                    rec(x, cur, out);
                    cur.pop();
                }
            }
            x => out.push((cur.clone(), x.clone())),
        }
    }
    let mut out = Vec::new();
    if let Value::Object(m) = t {
        for (k, x) in m {
            if k == "proof" {
                continue;
            }
            let mut cur = vec![Seg::Key(k.clone())];
            rec(x, &mut cur, &mut out);
        }
    }
    out
}

fn parse_path(s: &str) -> Path {
    let mut p = Vec::new();
    let mut cur = String::new();
    let mut chars = s.chars().peekable();
    while let Some(c) = chars.next() {
        match c {
            '.' => {
                if !cur.is_empty() {
                    p.push(Seg::Key(std::mem::take(&mut cur)));
                }
            }
            '[' => {
                if !cur.is_empty() {
                    p.push(Seg::Key(std::mem::take(&mut cur)));
                }
                let mut n = String::new();
                for d in chars.by_ref() {
                    if d == ']' {
                        break;
                    }
                    n.push(d);
                }
                p.push(Seg::Idx(n.parse().unwrap_or(0)));
            }
            c => cur.push(c),
        }
    }
    if !cur.is_empty() {
        p.push(Seg::Key(cur));
    }
    p
}

pub fn enumerate(t: &Value, strings: &[String]) -> Vec<MFault> {
    let mut v = Vec::new();
    for (p, val) in meta_leaves(t) {
        let ps = tree::path_str(&p);
        match val {
            Value::Number(n) => {
                let old = n.as_u64().unwrap_or(0);
                let mut cands = vec![old.wrapping_add(1), old.wrapping_sub(1), 0, 1, 2, 4, 5, 8, 16];
                cands.sort();
                cands.dedup();
                for c in cands {
                    if c != old && c < (1 << 31) {
                        v.push(MFault { path: ps.clone(), what: format!("num:{c}") });
                    }
                }
            }
            Value::Bool(_) => v.push(MFault { path: ps.clone(), what: "bool_flip".into() }),
            Value::String(s) => {
                for alt in strings {
                    if *alt != s {
                        v.push(MFault { path: ps.clone(), what: format!("str:{alt}") });
                    }
                }
            }
            Value::Null => v.push(MFault { path: ps.clone(), what: "unnull".into() }),
            _ => {}
        }
    }
    // w_binomial Some -> None
    v.push(MFault { path: ".w_binomial".into(), what: "null".into() });
    for arr in [".non_primitives", ".rows", ".stark_common.instances", ".stark_common.matrix_to_instance", ".table_packing.npo_lanes"] {
        for w in ["seq_swap01", "seq_drop_last", "seq_dup_last"] {
            v.push(MFault { path: arr.into(), what: w.into() });
        }
    }
    v
}

pub fn apply(t: &mut Value, f: &MFault) -> bool {
    let p = parse_path(&f.path);
    let Some(slot) = tree::get_mut(t, &p) else { return false };
    let before = slot.clone();
    if let Some(n) = f.what.strip_prefix("num:") {
        *slot = json!(n.parse::<u64>().unwrap_or(0));
    } else if f.what == "bool_flip" {
        *slot = json!(!slot.as_bool().unwrap_or(false));
    } else if let Some(s) = f.what.strip_prefix("str:") {
        *slot = json!(s);
    } else if f.what == "null" {
        *slot = Value::Null;
    } else if f.what == "unnull" {
        *slot = json!(3);
    } else if let Value::Array(a) = slot {
        match f.what.as_str() {
            "seq_swap01" if a.len() >= 2 => a.swap(0, 1),
            "seq_drop_last" if !a.is_empty() => {
                a.pop();
            }
            "seq_dup_last" if !a.is_empty() => {
                let x = a.last().cloned().unwrap();
                a.push(x);
            }
            _ => return false,
        }
    } else {
        return false;
    }
    *slot != before
}

/// Does this metadata fault make the proof contradict the verifier's own field parameters?
fn contradicts_field_params(f: &MFault) -> bool {
    f.path == ".ext_degree" || f.path == ".w_binomial" || f.path == ".alu_quintic_trinomial"
}

struct Member<U: CircuitUni> {
    label: &'static str,
    proof_tree: Value,
    valid: bool,
    cfg: ProverCfg,
    /// verdict on the proof object as the prover returned it, before any serialization
    in_memory_ok: Option<bool>,
    _p: core::marker::PhantomData<U>,
}

fn in_memory<U: CircuitUni>(p: &U::Proof, cfg: &ProverCfg) -> Option<bool> {
    observe(|| U::verify(p, cfg)).ok().map(|r| r.is_ok())
}

fn verdict<U: CircuitUni>(t: &Value, cfg: &ProverCfg) -> Result<Result<(), String>, String> {
    let p: U::Proof = match serde_json::from_value(t.clone()) {
        Ok(p) => p,
        Err(e) => return Ok(Err(format!("transport: {e}"))),
    };
    match observe(|| U::verify(&p, cfg)) {
        Ok(r) => Ok(r),
        Err(pm) => Err(pm),
    }
}

macro_rules! chal_proof {
    ($fname:ident, $m:ident, $uni:ty) => {
        fn $fname(h: &History, seed: u64) -> Result<(<$uni as CircuitUni>::Proof, ProverCfg), String> {
            use crate::chal::$m as C;
            foldhash::sim::set_seed(seed);
            let mut cb = C::builder_with(C::make_perm(), true);
            let rep = C::replay(h, &mut cb)?;
            let circuit = cb.build().map_err(|e| format!("{e:?}"))?;
            let mut r = circuit.runner();
            r.set_public_inputs(&rep.publics).map_err(|e| format!("{e:?}"))?;
            let traces = r.run().map_err(|e| format!("{e:?}"))?;
            // every other proof registers (and so lists) the recompose table before the Poseidon table
            let cfg = ProverCfg { npo: BuilderOpts { poseidon: true, recompose: true }, npo_reversed: seed % 2 == 1, ..ProverCfg::default() };
            let (keys, _) = pipe::keygen::<$uni>(&circuit, &cfg).map_err(|f| f.msg)?;
            let proof = pipe::prove::<$uni>(&keys, &traces, &cfg, None).map_err(|f| f.msg)?;
            Ok((proof, cfg))
        }
    };
}
chal_proof!(chal_proof_kb4, kb4, crate::uni::Kb4);
chal_proof!(chal_proof_bb4, bb4, crate::uni::Bb4);
chal_proof!(chal_proof_kb4zk, kb4, crate::uni::Kb4zk);

pub trait ChalProof: CircuitUni {
    fn chal_proof(h: &History, seed: u64) -> Result<(Self::Proof, ProverCfg), String>;
    fn chal_params() -> (u64, usize, usize);
}
impl ChalProof for crate::uni::Kb4 {
    fn chal_proof(h: &History, seed: u64) -> Result<(Self::Proof, ProverCfg), String> {
        chal_proof_kb4(h, seed)
    }
    fn chal_params() -> (u64, usize, usize) {
        crate::props::c05::cfg_params("kb4")
    }
}
impl ChalProof for crate::uni::Kb4zk {
    fn chal_proof(h: &History, seed: u64) -> Result<(Self::Proof, ProverCfg), String> {
        chal_proof_kb4zk(h, seed)
    }
    fn chal_params() -> (u64, usize, usize) {
        crate::props::c05::cfg_params("kb4")
    }
}
impl ChalProof for crate::uni::Bb4 {
    fn chal_proof(h: &History, seed: u64) -> Result<(Self::Proof, ProverCfg), String> {
        chal_proof_bb4(h, seed)
    }
    fn chal_params() -> (u64, usize, usize) {
        crate::props::c05::cfg_params("bb4")
    }
}

macro_rules! no_npo_universe {
    ($u:ty) => {
        impl ChalProof for $u {
            fn chal_proof(_h: &History, _seed: u64) -> Result<(Self::Proof, ProverCfg), String> {
                Err("no non-primitive tables in this universe".into())
            }
            fn chal_params() -> (u64, usize, usize) {
                (<<$u as CircuitUni>::BF as p3_field::PrimeField64>::ORDER_U64, <$u as CircuitUni>::D, 8)
            }
        }
    };
}
no_npo_universe!(crate::uni::Bb5);
no_npo_universe!(crate::uni::Kb5q);
no_npo_universe!(crate::uni::Kb8);
no_npo_universe!(crate::uni::Kb1);
no_npo_universe!(crate::uni::Gl2);

fn population<U: ChalProof>(ctx_seed: u64, idx: u64, tier: Tier, out: &mut RunOut) -> (Vec<Member<U>>, Program) {
    let mut rng = Rng::new(ctx_seed, "C16", idx);
    let mut pop = Vec::new();
    let p = c04::gen_program::<U>(&mut rng, tier);
    let mut cfg = ProverCfg::swarm(&mut rng, BuilderOpts::default());
    cfg.min_height = cfg.min_height.min(8);
    let hs = mix(ctx_seed, idx);
    let r = crate::gprog::ref_eval::<U::BF, U::EF>(&p);
    if r.sat && !r.precond_violated {
        if let Ok(h) = c04::honest::<U>(&p, &cfg, hs) {
            if let Ok(proof) = pipe::prove::<U>(&h.keys, &h.traces, &cfg, None) {
                pop.push(Member { label: "honest_primitive", proof_tree: serde_json::to_value(&proof).unwrap(), valid: true, cfg: cfg.clone(), in_memory_ok: in_memory::<U>(&proof, &cfg), _p: Default::default() });
            }
            // invalid-trace proof: flip the `out` limb of the first ALU op
            let d = U::D;
            let f = c04::CellFault { kind: "cell_flip".into(), table: 2, row: 0, col: 3 * d, delta: 1, row2: 0 };
            if let Some(forged) = c04::forge::<U>(&h, &f) {
                let shared = std::sync::Arc::new(forged);
                let s2 = shared.clone();
                let tamper: crate::uni::Tamper<U::BF> = Box::new(move |m| {
                    for (dst, src) in m.iter_mut().zip(s2.iter()) {
                        if dst.values.len() == src.values.len() {
                            dst.values.copy_from_slice(&src.values);
                        }
                    }
                });
                if let Ok(bad) = pipe::prove::<U>(&h.keys, &h.traces, &cfg, Some(tamper)) {
                    if U::verify(&bad, &cfg).is_err() {
                        pop.push(Member { label: "invalid_trace_primitive", proof_tree: serde_json::to_value(&bad).unwrap(), valid: false, cfg: cfg.clone(), in_memory_ok: in_memory::<U>(&bad, &cfg), _p: Default::default() });
                    } else {
                        out.count("forged_proof_unexpectedly_valid_skipped");
                    }
                }
            }
        }
    }
    // proof of a circuit without any extension multiplication: its trace satisfies the ALU
    // constraints for every reduction polynomial, so only the metadata checks stand between an
    // altered `w_binomial` / `alu_quintic_trinomial` and acceptance
    let lp = crate::gprog::generate_linear::<U::BF, U::EF>(&mut rng, 8);
    if let Ok(h) = c04::honest::<U>(&lp, &cfg, hs) {
        if let Ok(proof) = pipe::prove::<U>(&h.keys, &h.traces, &cfg, None) {
            pop.push(Member { label: "honest_linear", proof_tree: serde_json::to_value(&proof).unwrap(), valid: true, cfg: cfg.clone(), in_memory_ok: in_memory::<U>(&proof, &cfg), _p: Default::default() });
        }
    }
    // proof with non-primitive tables
    let (order, d, rate) = U::chal_params();
    let h = chal::gen_history(&mut rng, order, d.max(1), rate, 10, false);
    if let Ok(Ok((proof, ccfg))) = observe(|| U::chal_proof(&h, hs)) {
        pop.push(Member { label: "honest_with_npo_tables", proof_tree: serde_json::to_value(&proof).unwrap(), valid: true, in_memory_ok: in_memory::<U>(&proof, &ccfg), cfg: ccfg, _p: Default::default() });
    }
    (pop, p)
}

pub fn one_run<U: ChalProof>(ctx: &Ctx, idx: u64, only: Option<(&str, Vec<MFault>)>, out: &mut RunOut) {
    let (pop, program) = population::<U>(ctx.seed, idx, ctx.tier, out);
    let mut rng = Rng::new(ctx.seed, "C16-faults", idx);
    for m in &pop {
        if let Some((label, _)) = &only {
            if *label != m.label {
                continue;
            }
        }
        let detail = |faults: &[MFault], what: &str| json!({"universe": U::NAME, "idx": idx, "member": m.label, "faults": faults, "what": what, "program": program});
        // control: verdict of the untouched member
        let base = verdict::<U>(&m.proof_tree, &m.cfg);
        out.evals += 1;
        // the tree is the proof after one trip through its Serialize / Deserialize impls
        // (a verifier panic on the deserialized proof counts as a rejection)
        let flat: Result<(), String> = match &base {
            Ok(r) => r.clone(),
            Err(pm) => Err(format!("verifier panicked: {pm}")),
        };
        if let (r, Some(mem)) = (&flat, m.in_memory_ok) {
            if r.is_ok() != mem && only.is_none() {
                out.violate(
                    format!("roundtrip_changes_verdict:json_tree:{}", m.label),
                    format!("a {} proof {} as the prover returned it and {} after serialization and deserialization ({})", m.label, if mem { "verifies" } else { "is rejected" }, if r.is_ok() { "verifies" } else { "is rejected" }, r.clone().err().unwrap_or_default().chars().take(200).collect::<String>()),
                    detail(&[], "json_tree"),
                );
                continue;
            }
        }
        match &base {
            Ok(r) if r.is_ok() == m.valid => out.count(&format!("population_{}", m.label)),
            _ => {
                out.count("population_member_inconsistent_skipped");
                continue;
            }
        }
        // serialization round trips
        if only.is_none() {
            let p: U::Proof = serde_json::from_value(m.proof_tree.clone()).unwrap();
            for fmt in ["postcard", "json"] {
                let rt: Result<U::Proof, String> = if fmt == "postcard" {
                    U::postcard_roundtrip(&p)
                } else {
                    serde_json::to_string(&p).map_err(|e| e.to_string()).and_then(|s| serde_json::from_str(&s).map_err(|e| e.to_string()))
                };
                out.evals += 1;
                out.count(&format!("roundtrip_{fmt}"));
                match rt {
                    Ok(p2) => {
                        let v2 = observe(|| U::verify(&p2, &m.cfg));
                        let same = matches!(&v2, Ok(r) if r.is_ok() == m.valid);
                        if !same {
                            out.violate(format!("roundtrip_changes_verdict:{fmt}:{}", m.label), format!("{fmt} round trip of a {} proof: verdict before {:?}, after {:?}", m.label, m.valid, v2), detail(&[], fmt));
                        }
                        // and the bytes/tree must be stable
                        if serde_json::to_value(&p2).unwrap() != m.proof_tree {
                            out.violate(format!("roundtrip_changes_content:{fmt}:{}", m.label), format!("{fmt} round trip changed the proof's serialized content"), detail(&[], fmt));
                        }
                    }
                    Err(e) => out.violate(format!("roundtrip_fails:{fmt}:{}", m.label), format!("{fmt} round trip failed: {e}"), detail(&[], fmt)),
                }
            }
        }
        // metadata faults
        let mut strings: Vec<String> = meta_leaves(&m.proof_tree).iter().filter_map(|(_, v)| v.as_str().map(|s| s.to_string())).collect();
        strings.extend(["Baseline".to_string(), "Optimized".to_string()]);
        strings.sort();
        strings.dedup();
        let singles = enumerate(&m.proof_tree, &strings);
        let mut plans: Vec<Vec<MFault>> = match &only {
            Some((_, fs)) => vec![fs.clone()],
            None => singles.iter().map(|f| vec![f.clone()]).collect(),
        };
        if only.is_none() {
            for _ in 0..ctx.tier.pick(40, 400) {
                let a = rng.pick(&singles).clone();
                let b = rng.pick(&singles).clone();
                if a.path != b.path {
                    plans.push(vec![a, b]);
                }
            }
        }
        for fs in plans {
            let mut t = m.proof_tree.clone();
            let mut fired = 0;
            for f in &fs {
                if apply(&mut t, f) {
                    fired += 1;
                }
            }
            if fired != fs.len() {
                out.count("fault_not_fired");
                continue;
            }
            out.evals += 1;
            out.steps += 1;
            let cls: Vec<String> = fs.iter().map(|f| format!("{}={}", tree::path_class(&parse_path(&f.path)), f.what.split(':').next().unwrap_or(""))).collect();
            out.distinct.insert(crate::core::prng::fnv64(format!("{}:{}:{cls:?}", U::NAME, m.label).as_bytes()));
            out.count(if fs.len() == 1 { "fired_single_metadata_fault" } else { "fired_pair_metadata_faults" });
            // verifier-side manifest (the structural description of the proof the verifier expects):
            // any change of the fields it covers must make `matches` fail
            if m.valid {
                if let (Ok(exp), Ok(got)) = (serde_json::from_value::<U::Proof>(m.proof_tree.clone()), serde_json::from_value::<U::Proof>(t.clone())) {
                    let proj = |v: &Value| -> Value {
                        json!({
                            "ext_degree": v["ext_degree"], "w": v["w_binomial"], "q": v["alu_quintic_trinomial"], "alu_variant": v["alu_variant"],
                            "npo": v["non_primitives"].as_array().map(|a| a.iter().map(|e| json!([e["op_type"], e["air_variant"], e["public_values"].as_array().map(|p| p.len())])).collect::<Vec<_>>()),
                        })
                    };
                    let differs = proj(&t) != proj(&m.proof_tree);
                    match observe(|| U::manifest_matches(&exp, &got)) {
                        Ok(Ok(())) if differs => out.violate(
                            format!("manifest_accepts_contradicting_metadata:{}", cls.join("+")),
                            format!("metadata {fs:?} changes what the verifier's manifest describes (degree / reduction / ALU variant / non-primitive table list) but VerifierManifest::matches returns Ok"),
                            detail(&fs, "manifest"),
                        ),
                        Ok(Ok(())) => out.count("manifest_ok_unrelated_field"),
                        Ok(Err(_)) if differs => out.count("manifest_rejects_contradiction"),
                        Ok(Err(e)) => out.violate(format!("manifest_rejects_matching_proof:{}", cls.join("+")), format!("metadata {fs:?} leaves every manifest field unchanged but matches fails: {e}"), detail(&fs, "manifest")),
                        Err(_) => out.count("manifest_check_panicked_counted_as_reject"),
                    }
                }
            }
            match verdict::<U>(&t, &m.cfg) {
                Err(_pm) => {
                    // a panicking native verifier does not accept: for this property that is a
                    // rejection (the statement speaks of verdicts); counted, not a violation
                    out.count("verifier_panicked_counted_as_reject");
                    out.count(&format!("verifier_panic_on_{}", cls[0].split('=').next().unwrap_or("")));
                }
                Ok(Ok(())) => {
                    out.count("faulted_accepted");
                    if !m.valid {
                        out.violate(format!("invalid_trace_accepted:{}", cls.join("+")), format!("metadata fault {fs:?} turns a proof of an INVALID trace into an accepted one"), detail(&fs, "accept_invalid"));
                    } else if fs.iter().any(contradicts_field_params) {
                        out.violate(format!("contradicting_metadata_accepted:{}", cls.join("+")), format!("metadata {fs:?} contradicts the verifier's field parameters but the proof is accepted"), detail(&fs, "accept_contradiction"));
                    } else {
                        out.count("harmless_metadata_change_accepted");
                    }
                }
                Ok(Err(e)) => {
                    if e.starts_with("transport") {
                        out.count("rejected_at_transport");
                    } else {
                        out.count("faulted_rejected");
                    }
                }
            }
        }
        if out.samples.is_empty() {
            out.samples.push(json!({"universe": U::NAME, "member": m.label, "metadata": {"table_packing": m.proof_tree["table_packing"], "rows": m.proof_tree["rows"], "ext_degree": m.proof_tree["ext_degree"], "non_primitives": m.proof_tree["non_primitives"].as_array().map(|a| a.len())}, "single_faults": singles.len()}));
        }
    }
}

pub fn main(ctx: &Ctx) -> i32 {
    if let Some(path) = &ctx.replay {
        let body: Value = match std::fs::read_to_string(path).ok().and_then(|s| serde_json::from_str(&s).ok()) {
            Some(b) => b,
            None => {
                eprintln!("harness error: cannot read replay file");
                return 2;
            }
        };
        let d = &body["detail"];
        let idx = d["idx"].as_u64().unwrap_or(0);
        let fs: Vec<MFault> = serde_json::from_value(d["faults"].clone()).unwrap_or_default();
        let label = d["member"].as_str().unwrap_or("").to_string();
        let mut c2 = ctx.clone();
        c2.seed = body["seed"].as_u64().unwrap_or(ctx.seed);
        c2.tier = if body["tier"].as_str() == Some("thorough") { Tier::Thorough } else { Tier::Quick };
        let mut out = RunOut::default();
        let only = if fs.is_empty() { None } else { Some((label.as_str(), fs)) };
        crate::with_uni!(d["universe"].as_str().unwrap_or(""), U, one_run::<U>(&c2, idx, only, &mut out));
        let key = body["key"].as_str().unwrap_or("");
        if out.violations.iter().any(|v| v.key == key) {
            println!("VIOLATION property={} replay={}", ctx.prop, path.display());
            return 1;
        }
        println!("replay did not reproduce (saw {:?})", out.violations.iter().map(|v| &v.key).collect::<Vec<_>>());
        return 0;
    }
    let runs: u64 = ctx.tier.pick(48, 480);
    let res = crate::core::pool::run_jobs(runs, |idx| {
        let mut out = RunOut::default();
        crate::with_uni!(crate::uni::uni_of(idx), U, one_run::<U>(ctx, idx, None, &mut out));
        let mut d = crate::core::prng::Digest::new();
        d.u64(out.evals);
        for (k, v) in &out.counters {
            d.str(k);
            d.u64(*v);
        }
        out.digest = d.finish();
        out
    });
    let outs = match res {
        Ok(o) => o,
        Err(e) => {
            eprintln!("harness error: {e}");
            return 2;
        }
    };
    let mut total = RunOut::default();
    for o in outs {
        total.merge(o);
    }
    crate::core::report::finish(
        ctx,
        &total,
        runs,
        Spec {
            level: "fault_enumeration",
            rule: "one run = a population of three circuit proofs (honest primitive-only proof under a packing swarm; an invalid-trace proof produced by the byzantine prover and rejected by the verifier; an honest proof of an add/sub/connect-only circuit, whose trace satisfies the ALU constraints under every reduction polynomial; an honest proof with Poseidon2 and recompose tables, D4 universes only) in U-KB4 / U-BB4 (7 of 12 runs) and BabyBear binomial D5, KoalaBear quintic D5, KoalaBear D8, KoalaBear D1, Goldilocks D2. Every metadata leaf outside `proof` (ext_degree, w_binomial, alu_quintic_trinomial, every TablePacking field, rows, alu_variant, every NonPrimitiveTableEntry field, stark_common commitment words / instance metadata / matrix_to_instance) is set to every value of a small well-formed set, option flipped, strings replaced, lists swapped / shortened / duplicated; plus sampled pairs; plus postcard and JSON round trips of every member; for valid members a VerifierManifest built from the untouched proof must reject every fault that changes a field it describes. distinct = distinct (universe, member, field class, fault) combinations.",
            exhaustive: true,
            assumptions: vec!["exhaustive over single metadata faults from the stated value set for each sampled proof; pairs sampled".into(), "verifier = verify_all_tables::<EF> with the verifier's own registered tables (no commitment binding here: the property is about native verification)".into()],
            components_real: vec!["BatchStarkProof serde impls (serde_json, postcard)", "BatchStarkProof::validate", "verify_all_tables", "prove_all_tables"],
            components_stub: vec![],
            not_covered: vec!["re-proving under an altered EF (adversarial variant of DESIGN §5 C16)", "in-circuit verdict after round trip"],
            extra: json!({}),
        },
    )
}
