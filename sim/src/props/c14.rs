//! C14 — proof data is packed in allocation order and every input matters.
//! Same shapes as C01. (a) packed lengths == circuit lengths (honest run accepted); (b) leaf →
//! positions map: corrupting any value leaf of the serialized proof must change at least one
//! packed position (or it is a Merkle sibling digest, delivered as private data); every packed
//! position must be written by some leaf / public value; (c) position faults: corrupting any
//! single position of the packed public or private vector must make the circuit unsatisfiable.

use std::collections::BTreeMap;

use serde_json::{Value, json};

use crate::core::prng::{Rng, mix};
use crate::core::report::{Ctx, RunOut, Spec, Tier};
use crate::props::c01::{Fault, ShapeSpec, apply_fault, draw_shape};
use crate::rec::RecUni;
use crate::tree;

fn diff_positions(a: &[u64], b: &[u64], d: usize) -> Vec<usize> {
    let mut v = Vec::new();
    for i in 0..a.len().max(b.len()) / d.max(1) {
        let (lo, hi) = (i * d, (i + 1) * d);
        if a.get(lo..hi) != b.get(lo..hi) {
            v.push(i);
        }
    }
    v
}

/// A leaf that travels as non-primitive private data (Merkle sibling digests), not in the packed vectors.
fn is_private_data_leaf(class: &str) -> bool {
    class.contains("opening_proof") && !class.contains("opened_values") && !class.contains("sibling_values") && !class.contains("commit_phase_commits") && !class.contains("final_poly") && !class.contains("pow_witness")
}

pub fn run_shape<R: RecUni>(seed: u64, idx: u64, spec: &ShapeSpec, tier: Tier, only_pos: Option<(bool, usize)>, out: &mut RunOut) {
    let s = &spec.fri;
    let d = R::ext_degree();
    let detail = |what: &str, extra: Value| json!({"shape": spec, "idx": idx, "what": what, "extra": extra});
    let mut rng = Rng::new(seed, "C14-faults", idx);
    // ---- set-up (uni / batch differ only in plumbing)
    enum Setup<R: RecUni> {
        Uni(R::UniProof, Vec<R::Val>, R::UniBuilt),
        Batch(R::BatchProof, R::Common, R::BatchBuilt),
    }
    let setup: Setup<R> = if spec.kind == "uni" {
        let (proof, pis) = match crate::core::pool::observe(|| R::uni_prove_fib(s, spec.log_n)) {
            Ok(x) => x,
            Err(_) => {
                out.count("honest_prover_panicked_shape_skipped");
                return;
            }
        };
        match R::uni_build(s, &proof, pis.len()) {
            Ok(b) => Setup::Uni(proof, pis, b),
            Err(_) => {
                out.count("honest_shape_not_buildable_skipped");
                return;
            }
        }
    } else {
        let (proof, common, _) = match R::batch_prove(s, spec.program.as_ref().unwrap(), spec.public_lanes, spec.alu_lanes) {
            Ok(x) => x,
            Err(_) => {
                out.count("honest_batch_prover_failed_skipped");
                return;
            }
        };
        match R::batch_build(s, &proof, &common) {
            Ok(b) => Setup::Batch(proof, common, b),
            Err(_) => {
                out.count("honest_shape_not_buildable_skipped");
                return;
            }
        }
    };
    let run = |m: Option<(bool, usize, u64)>| match &setup {
        Setup::Uni(p, pis, b) => R::uni_run_mut(b, p, pis, m),
        Setup::Batch(p, c, b) => R::batch_run_mut(b, p, c, m),
    };
    let (hv, hinfo) = run(None);
    out.evals += 1;
    // (a) lengths, from the packing alone (a short vector is refused by the runner before anything
    // is checked, so this must not wait for an accepted run)
    let packed = match &setup {
        Setup::Uni(p, pis, b) => R::uni_pack(b, p, pis),
        Setup::Batch(p, c, b) => R::batch_pack(b, p, c),
    };
    if let Ok((pp, pq)) = &packed {
        if pp.len() != hinfo.public_len * d || pq.len() != hinfo.private_len * d {
            out.violate(
                "packed_length_mismatch".to_string(),
                format!("packed lengths ({}, {}) words vs circuit expects ({}, {}) elements of degree {d}", pp.len(), pq.len(), hinfo.public_len, hinfo.private_len),
                detail("lengths", json!({})),
            );
            return;
        }
    }
    if !hv.accepts() {
        out.count("honest_not_accepted_skipped");
        return;
    }
    let (hpub, hpriv) = (hinfo.packed_public.clone(), hinfo.packed_private.clone());
    // (a) lengths
    if hpub.len() != hinfo.public_len * d || hpriv.len() != hinfo.private_len * d {
        out.violate(
            "packed_length_mismatch".to_string(),
            format!("packed lengths ({}, {}) words vs circuit expects ({}, {}) elements of degree {d}", hpub.len(), hpriv.len(), hinfo.public_len, hinfo.private_len),
            detail("lengths", json!({})),
        );
        return;
    }
    let (npub, npriv) = (hinfo.public_len, hinfo.private_len);
    out.count_n("packed_public_positions", npub as u64);
    out.count_n("packed_private_positions", npriv as u64);
    // (b) leaf -> positions
    let mut pub_written: Vec<Option<String>> = vec![None; npub];
    let mut priv_written: Vec<Option<String>> = vec![None; npriv];
    if only_pos.is_none() {
        let tree0 = match &setup {
            Setup::Uni(p, _, _) => serde_json::to_value(p).unwrap(),
            Setup::Batch(p, _, _) => serde_json::to_value(p).unwrap(),
        };
        for path in tree::numeric_leaves(&tree0) {
            if tree::is_meta_leaf(&path) {
                continue;
            }
            let class = tree::path_class(&path);
            let mut t = tree0.clone();
            if !apply_fault(&mut t, &path, Fault::Add1, 0) {
                continue;
            }
            let packed = match &setup {
                Setup::Uni(_, pis, b) => match serde_json::from_value::<R::UniProof>(t) {
                    Ok(p2) => R::uni_pack(b, &p2, pis),
                    Err(_) => {
                        out.count("rejected_at_transport");
                        continue;
                    }
                },
                Setup::Batch(_, c, b) => match serde_json::from_value::<R::BatchProof>(t) {
                    Ok(p2) => {
                        let c2 = R::common_for(&p2, c);
                        R::batch_pack(b, &p2, &c2)
                    }
                    Err(_) => {
                        out.count("rejected_at_transport");
                        continue;
                    }
                },
            };
            out.evals += 1;
            let (pp, pq) = match packed {
                Ok(x) => x,
                Err(_) => {
                    out.count("pack_panicked_on_tampered_value");
                    continue;
                }
            };
            let dp = diff_positions(&hpub, &pp, d);
            let dq = diff_positions(&hpriv, &pq, d);
            for i in &dp {
                if let Some(x) = pub_written.get_mut(*i) {
                    *x = Some(class.clone());
                }
            }
            for i in &dq {
                if let Some(x) = priv_written.get_mut(*i) {
                    *x = Some(class.clone());
                }
            }
            out.distinct.insert(crate::core::prng::fnv64(format!("{}:{class}", spec.kind).as_bytes()));
            if dp.is_empty() && dq.is_empty() {
                if is_private_data_leaf(&class) {
                    out.count("leaf_travels_as_private_data");
                } else {
                    out.violate(
                        format!("leaf_not_packed:{}:{class}", spec.kind),
                        format!("corrupting leaf {} changes no position of the packed public/private vectors", tree::path_str(&path)),
                        detail("leaf_not_packed", json!({"leaf": tree::path_str(&path)})),
                    );
                }
            } else if dp.len() + dq.len() > 1 {
                out.count("leaf_mapped_to_several_positions");
            }
        }
        // public values (uni)
        if let Setup::Uni(p, pis, b) = &setup {
            for i in 0..pis.len() {
                let mut pis2 = pis.clone();
                pis2[i] += <R::Val as p3_field::PrimeCharacteristicRing>::ONE;
                if let Ok((pp, pq)) = R::uni_pack(b, p, &pis2) {
                    for j in diff_positions(&hpub, &pp, d) {
                        pub_written[j] = Some("public_value".into());
                    }
                    for j in diff_positions(&hpriv, &pq, d) {
                        priv_written[j] = Some("public_value".into());
                    }
                }
            }
        }
        let unwritten_pub = pub_written.iter().filter(|x| x.is_none()).count();
        let unwritten_priv = priv_written.iter().filter(|x| x.is_none()).count();
        out.count_n("positions_not_reached_by_any_leaf", (unwritten_pub + unwritten_priv) as u64);
    }
    // (c) position faults
    let mut by_class: BTreeMap<String, u64> = BTreeMap::new();
    for (is_pub, n) in [(true, npub), (false, npriv)] {
        for pos in 0..n {
            if let Some((op, opos)) = only_pos {
                if op != is_pub || opos != pos {
                    continue;
                }
            } else if tier == Tier::Quick && n > 600 && !rng.chance(600, n as u64) {
                continue;
            }
            let carried = if is_pub { pub_written.get(pos) } else { priv_written.get(pos) }.cloned().flatten();
            if carried.as_deref().is_some_and(|c| c.contains("pow_witness")) && only_pos.is_none() {
                // a changed proof-of-work witness is accepted with probability 2^-bits by both
                // verifiers; that agreement is C01's (native comparison), not a position property
                out.count("pow_witness_position_skipped");
                continue;
            }
            let (v, _) = run(Some((is_pub, pos, mix(seed, idx))));
            out.evals += 1;
            out.steps += 1;
            out.count(if is_pub { "fault_public_position" } else { "fault_private_position" });
            if v.accepts() {
                let class = if is_pub { pub_written.get(pos) } else { priv_written.get(pos) }.cloned().flatten().unwrap_or_else(|| "unmapped".into());
                *by_class.entry(class.clone()).or_insert(0) += 1;
                out.violate(
                    format!("position_unconstrained:{}:{}:{class}", spec.kind, if is_pub { "public" } else { "private" }),
                    format!("corrupting packed {} position {pos} (carries {class}) leaves the circuit satisfiable", if is_pub { "public" } else { "private" }),
                    detail("position", json!({"public": is_pub, "pos": pos})),
                );
            }
        }
    }
}

pub fn one_run(ctx: &Ctx, idx: u64, out: &mut RunOut) {
    // same shape stream as C01
    let mut rng = Rng::new(ctx.seed, "C01", idx);
    foldhash::sim::set_seed(mix(ctx.seed, idx));
    let base: u64 = ctx.tier.pick(48, 480);
    let (uni, spec) = if idx >= base {
        // C01's systematic walk over the custom-AIR lists / kinds
        out.count("custom_air_sweep_runs");
        crate::props::c01::sweep_shape(&mut rng, ctx.tier, (idx - base) as usize)
    } else {
        let uni = crate::rec::universe_of(idx);
        (uni, crate::with_rec_universe!(uni, U, draw_shape::<U>(&mut rng, ctx.tier, None)))
    };
    if out.samples.is_empty() {
        out.samples.push(json!({"idx": idx, "shape": {"universe": spec.universe, "kind": spec.kind, "fri": spec.fri, "log_n": spec.log_n}}));
    }
    crate::with_rec_universe!(uni, U, run_shape::<U>(ctx.seed, idx, &spec, ctx.tier, None, out));
}

pub fn replay(ctx: &Ctx, body: &Value) -> i32 {
    let d = &body["detail"];
    let spec: ShapeSpec = match serde_json::from_value(d["shape"].clone()) {
        Ok(s) => s,
        Err(e) => {
            eprintln!("harness error: bad replay file: {e}");
            return 2;
        }
    };
    let idx = d["idx"].as_u64().unwrap_or(0);
    let seed = body["seed"].as_u64().unwrap_or(ctx.seed);
    let only = if d["what"].as_str() == Some("position") {
        Some((d["extra"]["public"].as_bool().unwrap_or(true), d["extra"]["pos"].as_u64().unwrap_or(0) as usize))
    } else {
        None
    };
    foldhash::sim::set_seed(mix(seed, idx));
    let mut out = RunOut::default();
    crate::with_rec_universe!(spec.universe.as_str(), U, run_shape::<U>(seed, idx, &spec, Tier::Thorough, only, &mut out));
    let key = body["key"].as_str().unwrap_or("");
    // with only_pos the class cannot be recomputed: match on the key prefix
    let prefix: String = key.split(':').take(3).collect::<Vec<_>>().join(":");
    for v in &out.violations {
        if v.key == key || (only.is_some() && v.key.starts_with(&prefix)) {
            println!("VIOLATION property={} replay={}", ctx.prop, ctx.replay.as_ref().unwrap().display());
            println!("  key={} clause={}", v.key, v.clause);
            return 1;
        }
    }
    println!("replay did not reproduce key {key}");
    0
}

pub fn main(ctx: &Ctx) -> i32 {
    if let Some(path) = &ctx.replay {
        let body: Value = match std::fs::read_to_string(path).ok().and_then(|s| serde_json::from_str(&s).ok()) {
            Some(b) => b,
            None => {
                eprintln!("harness error: cannot read replay file");
                return 2;
            }
        };
        return replay(ctx, &body);
    }
    let runs: u64 = ctx.tier.pick(48, 480) + crate::props::c01::SWEEP_RUNS;
    let res = crate::core::pool::run_jobs(runs, |idx| {
        let mut out = RunOut::default();
        one_run(ctx, idx, &mut out);
        let mut d = crate::core::prng::Digest::new();
        d.u64(out.evals);
        for (k, v) in &out.counters {
            d.str(k);
            d.u64(*v);
        }
        out.digest = d.finish();
        out
    });
    let outs = match res {
        Ok(o) => o,
        Err(e) => {
            eprintln!("harness error: {e}");
            return 2;
        }
    };
    let mut total = RunOut::default();
    for o in outs {
        total.merge(o);
    }
    crate::core::report::finish(
        ctx,
        &total,
        runs,
        Spec {
            level: "fault_enumeration",
            rule: "same proof-shape swarm as C01 (uni-STARK Fibonacci at heights 2^0..; batch-STARK proofs of seeded circuits; FRI parameter swarm). Per shape: honest packing must have exactly the circuit's lengths and be accepted; every value leaf of the serialized proof is corrupted (+1) and the packed vectors are diffed against the honest ones (leaf -> position map; a leaf that changes nothing and is not a Merkle sibling digest is a dropped input); then every position of the packed public and private vectors (sampled down to ~600 per vector in quick) is corrupted by a random extension element and the circuit must become unsatisfiable. distinct = distinct (kind, leaf class) pairs mapped.",
            exhaustive: false,
            assumptions: vec![
                "Merkle sibling digests travel as non-primitive private data (set_fri_mmcs_private_data), not in the packed vectors; they are covered by C01/C08".into(),
            ],
            components_real: vec!["StarkVerifierInputsBuilder / BatchStarkVerifierInputsBuilder::pack_values", "Recursive::get_values impls", "verifier circuits", "CircuitRunner"],
            components_stub: vec![],
            not_covered: vec!["ZK randomisation", "lookup/preprocessed uni-STARK shapes", "Goldilocks, quintic"],
            extra: json!({}),
        },
    )
}
