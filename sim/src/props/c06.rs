//! C06 — sampled challenges are bound to the entire transcript; C12 — decompositions admit only
//! the canonical witness. Byzantine prover at witness-generation depth (d2): the permutation closure
//! handed to the builder is a wrapper that deviates on its k-th call in chosen output lanes
//! (capacity = not exposed on the bus; rate = exposed), and `Op::Hint` executors are swapped for
//! deviating ones (bits of x + p; coefficient mass moved between extension coefficients).
//! Everything downstream is computed honestly, the forged run is proven by the real prover and
//! checked by the real verifier. Oracle: accepted ⇒ every sampled challenge equals the native one
//! (C06) / every decomposition is the canonical one (C12).

use std::sync::Arc;
use std::sync::atomic::{AtomicUsize, Ordering};

use p3_circuit::{CircuitError, Op, WitnessId};
use p3_field::{BasedVectorSpace, ExtensionField, Field, PrimeCharacteristicRing, PrimeField64};
use p3_symmetric::Permutation;
use serde_json::{Value, json};

use crate::chal::{self, ChOp, History};
use crate::core::pool::observe;
use crate::core::prng::{Rng, mix, splitmix64};
use crate::core::report::{Ctx, RunOut, Spec};
use crate::pipe;
use crate::uni::{BuilderOpts, CircuitUni, ProverCfg};

/// A permutation that deviates on its `target`-th call (0-based) in lanes `lo..hi`.
#[derive(Clone)]
pub struct DeviatingPerm<P> {
    pub inner: P,
    pub calls: Arc<AtomicUsize>,
    pub target: usize,
    pub lo: usize,
    pub hi: usize,
    /// 0 = replace with pseudo-random, 1 = reset to zero, 2 = choose (a fixed other state: all ones)
    pub mode: u8,
    pub seed: u64,
    pub fired: Arc<AtomicUsize>,
}
impl<F: PrimeField64, P: Permutation<[F; N]>, const N: usize> Permutation<[F; N]> for DeviatingPerm<P> {
    fn permute_mut(&self, x: &mut [F; N]) {
        self.inner.permute_mut(x);
        let k = self.calls.fetch_add(1, Ordering::SeqCst);
        if k == self.target {
            let mut st = self.seed;
            for lane in x.iter_mut().take(self.hi.min(N)).skip(self.lo) {
                let new = match self.mode {
                    0 => F::from_u64(splitmix64(&mut st) % F::ORDER_U64),
                    1 => F::ZERO,
                    _ => F::ONE,
                };
                if new != *lane {
                    self.fired.fetch_add(1, Ordering::SeqCst);
                }
                *lane = new;
            }
        }
    }
}

/// Hint emitting the bits of `x + k*p` instead of the canonical bits (when that fits the width).
#[derive(Debug, Clone)]
pub struct NonCanonicalBitsHint<BF> {
    pub k: u64,
    pub fired: Arc<AtomicUsize>,
    pub _p: core::marker::PhantomData<BF>,
}
impl<BF: PrimeField64, EF: ExtensionField<BF>> p3_circuit::ops::HintExecutor<EF> for NonCanonicalBitsHint<BF> {
    fn execute(&self, inputs: &[WitnessId], outputs: &[WitnessId], witness: &mut [Option<EF>]) -> Result<(), CircuitError> {
        let x = witness[inputs[0].0 as usize].ok_or(CircuitError::WitnessNotSet { witness_id: inputs[0] })?;
        let c0 = <EF as BasedVectorSpace<BF>>::as_basis_coefficients_slice(&x)[0].as_canonical_u64();
        let n = outputs.len().min(64);
        let alt = c0 as u128 + self.k as u128 * BF::ORDER_U64 as u128;
        let v = if n < 64 && alt >> n == 0 || n == 64 && alt <= u64::MAX as u128 {
            self.fired.fetch_add(1, Ordering::SeqCst);
            alt as u64
        } else {
            c0
        };
        for (i, o) in outputs.iter().enumerate() {
            let bit = if i < 64 { (v >> i) & 1 == 1 } else { false };
            let slot = &mut witness[o.0 as usize];
            if slot.is_none() {
                *slot = Some(EF::from_bool(bit));
            }
        }
        Ok(())
    }
    fn boxed(&self) -> Box<dyn p3_circuit::ops::HintExecutor<EF>> {
        Box::new(self.clone())
    }
}

/// Hint emitting the canonical bits, except that bits 0 and 1 carry upper extension limbs that
/// cancel in every linear check: b0 += t*X - t*X^2, b1 += -(t/2)*X + (t/2)*X^2 (so b0 + 2*b1 and the
/// sum of the upper limbs of each bit are unchanged). Needs extension degree >= 3 and >= 2 bits.
#[derive(Debug, Clone)]
pub struct LimbCancelBitsHint<BF> {
    pub t: u64,
    pub fired: Arc<AtomicUsize>,
    pub _p: core::marker::PhantomData<BF>,
}
impl<BF: PrimeField64, EF: ExtensionField<BF>> p3_circuit::ops::HintExecutor<EF> for LimbCancelBitsHint<BF> {
    fn execute(&self, inputs: &[WitnessId], outputs: &[WitnessId], witness: &mut [Option<EF>]) -> Result<(), CircuitError> {
        let x = witness[inputs[0].0 as usize].ok_or(CircuitError::WitnessNotSet { witness_id: inputs[0] })?;
        let c0 = <EF as BasedVectorSpace<BF>>::as_basis_coefficients_slice(&x)[0].as_canonical_u64();
        let d = <EF as BasedVectorSpace<BF>>::DIMENSION;
        let fire = d >= 3 && outputs.len() >= 2;
        let basis = |i: usize| -> EF {
            let mut v = vec![BF::ZERO; d];
            v[i] = BF::ONE;
            EF::from_basis_coefficients_slice(&v).unwrap()
        };
        for (i, o) in outputs.iter().enumerate() {
            let bit = if i < 64 { (c0 >> i) & 1 == 1 } else { false };
            let mut v = EF::from_bool(bit);
            if fire && i < 2 {
                let t = BF::from_u64(self.t.max(1));
                let half = t * BF::TWO.inverse();
                let k = if i == 0 { t } else { -half };
                v += EF::from(k) * basis(1) - EF::from(k) * basis(2);
            }
            let slot = &mut witness[o.0 as usize];
            if slot.is_none() {
                *slot = Some(v);
            }
        }
        if fire {
            self.fired.fetch_add(1, Ordering::SeqCst);
        }
        Ok(())
    }
    fn boxed(&self) -> Box<dyn p3_circuit::ops::HintExecutor<EF>> {
        Box::new(self.clone())
    }
}

/// Hint emitting coefficients `c0 - delta*X, c1 + delta, c2, ...` (same recomposition, c0 not in the base field).
#[derive(Debug, Clone)]
pub struct MassMoveHint<BF> {
    pub delta: u64,
    pub fired: Arc<AtomicUsize>,
    pub _p: core::marker::PhantomData<BF>,
}
impl<BF: PrimeField64, EF: ExtensionField<BF>> p3_circuit::ops::HintExecutor<EF> for MassMoveHint<BF> {
    fn execute(&self, inputs: &[WitnessId], outputs: &[WitnessId], witness: &mut [Option<EF>]) -> Result<(), CircuitError> {
        let x = witness[inputs[0].0 as usize].ok_or(CircuitError::WitnessNotSet { witness_id: inputs[0] })?;
        let cs = <EF as BasedVectorSpace<BF>>::as_basis_coefficients_slice(&x).to_vec();
        let d = cs.len();
        let basis = |i: usize| -> EF {
            let mut v = vec![BF::ZERO; d];
            v[i] = BF::ONE;
            EF::from_basis_coefficients_slice(&v).unwrap()
        };
        let delta = EF::from(BF::from_u64(self.delta));
        for (i, o) in outputs.iter().enumerate() {
            let mut c = EF::from(cs[i]);
            if d >= 2 {
                if i == 0 {
                    c -= delta * basis(1);
                }
                if i == 1 {
                    c += delta;
                }
            }
            let slot = &mut witness[o.0 as usize];
            if slot.is_none() {
                *slot = Some(c);
            }
        }
        if d >= 2 {
            self.fired.fetch_add(1, Ordering::SeqCst);
        }
        Ok(())
    }
    fn boxed(&self) -> Box<dyn p3_circuit::ops::HintExecutor<EF>> {
        Box::new(self.clone())
    }
}

#[derive(Clone, Debug, serde::Serialize, serde::Deserialize)]
pub struct Fault {
    /// "perm_capacity", "perm_rate", "hint_bits", "hint_coeffs", "none"
    pub kind: String,
    pub call: usize,
    pub mode: u8,
    pub k: u64,
}

pub struct CaseOut {
    pub fired: usize,
    pub run_err: Option<String>,
    pub accepted: Option<Result<(), String>>,
    /// first sampled value that differs from native (tag, got, want)
    pub sample_diff: Option<String>,
    /// first decomposition output that is not canonical
    pub noncanonical: Option<String>,
    pub ops: usize,
}

macro_rules! c06_cfg {
    ($fname:ident, $m:ident, $uni:ty) => {
        c06_cfg!($fname, $m, $uni, false);
    };
    ($fname:ident, $m:ident, $uni:ty, $p1:expr) => {
        pub fn $fname(h: &History, fault: &Fault, seed: u64) -> Result<CaseOut, String> {
            use crate::chal::$m as U;
            type BF = U::F;
            type EF = U::EF;
            foldhash::sim::set_seed(seed);
            let calls = Arc::new(AtomicUsize::new(0));
            let fired = Arc::new(AtomicUsize::new(0));
            let (lo, hi) = match fault.kind.as_str() {
                "perm_capacity" => (U::RATE, U::WIDTH),
                "perm_rate" => (0, U::RATE),
                _ => (0, 0),
            };
            let perm = DeviatingPerm { inner: U::make_perm(), calls: calls.clone(), target: fault.call, lo, hi, mode: fault.mode, seed, fired: fired.clone() };
            let mut cb = U::builder_with(perm, true);
            let rep = U::replay(h, &mut cb)?;
            let mut circuit = cb.build().map_err(|e| format!("{e:?}"))?;
            // swap hint executors
            let mut hint_idx = 0usize;
            for op in circuit.ops.iter_mut() {
                if let Op::Hint { outputs, executor, .. } = op {
                    let is_bits = format!("{executor:?}").contains("Binary");
                    if fault.kind == "hint_bits" && is_bits {
                        if hint_idx == fault.call {
                            *executor = Box::new(NonCanonicalBitsHint::<BF> { k: fault.k, fired: fired.clone(), _p: Default::default() });
                        }
                        hint_idx += 1;
                    } else if fault.kind == "hint_bits_limbs" && is_bits {
                        if hint_idx == fault.call {
                            *executor = Box::new(LimbCancelBitsHint::<BF> { t: fault.k, fired: fired.clone(), _p: Default::default() });
                        }
                        hint_idx += 1;
                    } else if fault.kind == "hint_coeffs" && !is_bits && outputs.len() == U::D {
                        if hint_idx == fault.call {
                            *executor = Box::new(MassMoveHint::<BF> { delta: fault.k.max(1), fired: fired.clone(), _p: Default::default() });
                        }
                        hint_idx += 1;
                    }
                }
            }
            let ops = circuit.ops.len();
            calls.store(0, Ordering::SeqCst);
            let ran = observe(|| {
                let mut r = circuit.runner();
                if fault.kind == "free_lane" {
                    // hook H3: the part of a permutation's input state that is not read from the
                    // witness (zero padding, chained capacity / rate) is the prover's to choose
                    let cnt = Arc::new(AtomicUsize::new(0));
                    let fired2 = fired.clone();
                    let (target, lane, delta) = (fault.call, fault.mode as usize, fault.k.max(1));
                    r.set_verif_free_state_tamper(Box::new(move |_op, st: &mut [EF]| {
                        let k = cnt.fetch_add(1, Ordering::SeqCst);
                        if k == target {
                            if let Some(x) = st.get_mut(lane) {
                                *x += EF::from(BF::from_u64(delta));
                                fired2.fetch_add(1, Ordering::SeqCst);
                            }
                        }
                    }));
                }
                r.set_public_inputs(&rep.publics).map_err(|e| format!("{e:?}"))?;
                r.run().map_err(|e| format!("{e:?}"))
            });
            let traces = match ran {
                Ok(Ok(t)) => t,
                Ok(Err(e)) => return Ok(CaseOut { fired: fired.load(Ordering::SeqCst), run_err: Some(e), accepted: None, sample_diff: None, noncanonical: None, ops }),
                Err(p) => return Ok(CaseOut { fired: fired.load(Ordering::SeqCst), run_err: Some(format!("panic: {p}")), accepted: None, sample_diff: None, noncanonical: None, ops }),
            };
            let mut sample_diff = None;
            for (tag, v) in &rep.expected {
                if let Some(got) = traces.probe(tag) {
                    if got != v {
                        sample_diff = Some(format!("{tag}: circuit {:?} native {:?}", crate::gprog::f_to_u64s::<BF, EF>(got), crate::gprog::f_to_u64s::<BF, EF>(v)));
                        break;
                    }
                }
            }
            // canonical-decomposition check on every hint of the executed circuit
            let mut noncanonical = None;
            for op in &circuit.ops {
                if let Op::Hint { inputs, outputs, .. } = op {
                    let x = *traces.witness_trace.get_value(inputs[0]).unwrap();
                    let outs: Vec<EF> = outputs.iter().map(|o| *traces.witness_trace.get_value(*o).unwrap()).collect();
                    if outputs.len() == U::D && U::D > 1 && outs.iter().any(|c| !crate::gprog::is_base::<BF, EF>(c)) {
                        noncanonical = Some("extension coefficient with non-zero higher basis components".to_string());
                        break;
                    }
                    if outputs.len() != U::D || U::D == 1 {
                        // bit decomposition of the first limb
                        let c0 = <EF as BasedVectorSpace<BF>>::as_basis_coefficients_slice(&x)[0].as_canonical_u64();
                        let per = <BF as Field>::bits();
                        if outputs.len() <= per {
                            for (i, b) in outs.iter().enumerate() {
                                if *b != EF::from_bool((c0 >> i) & 1 == 1) {
                                    noncanonical = Some(format!("bit {i} of the decomposition of {c0} is not the canonical bit"));
                                    break;
                                }
                            }
                        }
                    }
                    if noncanonical.is_some() {
                        break;
                    }
                }
            }
            // prove + verify with the real prover/verifier
            // the recompose tables packed 1, 2 or 3 operations per row, by case seed
            let cfg = ProverCfg { npo: BuilderOpts { poseidon: true, recompose: true }, recompose_lanes: [1usize, 2, 3][(seed % 3) as usize], poseidon1: $p1, ..ProverCfg::default() };
            let accepted = (|| -> Result<(), pipe::Fail> {
                let (keys, info) = pipe::keygen::<$uni>(&circuit, &cfg)?;
                let proof = pipe::prove::<$uni>(&keys, &traces, &cfg, None)?;
                pipe::verify::<$uni>(&proof, &cfg, &info.commitment)
            })()
            .map_err(|f| format!("{}: {}", f.stage.name(), f.msg.chars().take(160).collect::<String>()));
            Ok(CaseOut { fired: fired.load(Ordering::SeqCst), run_err: None, accepted: Some(accepted), sample_diff, noncanonical, ops })
        }
    };
}
c06_cfg!(case_kb4, kb4, crate::uni::Kb4);
c06_cfg!(case_bb4, bb4, crate::uni::Bb4);
c06_cfg!(case_kb5q1, kb5q1, crate::uni::Kb5q);
c06_cfg!(case_kb5q1p1, kb5q1p1, crate::uni::Kb5q, true);

/// (limbs of the permutation state, rate limbs) as the executor sees them
pub fn state_shape(cfg: &str) -> (usize, usize) {
    if cfg == "kb5q1" || cfg == "kb5q1p1" { (16, 8) } else { (4, 2) }
}

/// C12 gadget arm: a G-prog program (decompose_to_bits / decompose_ext_to_base_coeffs on public
/// inputs, ALU recomposition) compiled without non-primitive tables, hints swapped, proven, verified.
pub fn gadget_case<U: CircuitUni>(p: &crate::gprog::Program, fault: &Fault, seed: u64) -> Result<CaseOut, String> {
    foldhash::sim::set_seed(seed);
    let fired = Arc::new(AtomicUsize::new(0));
    let mut circuit = pipe::build_circuit::<U>(p, BuilderOpts::default(), true).map_err(|f| f.msg)?;
    let d = <U::EF as BasedVectorSpace<U::BF>>::DIMENSION;
    let mut hint_idx = 0usize;
    for op in circuit.ops.iter_mut() {
        if let Op::Hint { outputs, executor, .. } = op {
            let is_bits = format!("{executor:?}").contains("Binary");
            if fault.kind == "hint_bits" && is_bits {
                if hint_idx == fault.call {
                    *executor = Box::new(NonCanonicalBitsHint::<U::BF> { k: fault.k, fired: fired.clone(), _p: Default::default() });
                }
                hint_idx += 1;
            } else if fault.kind == "hint_bits_limbs" && is_bits {
                if hint_idx == fault.call {
                    *executor = Box::new(LimbCancelBitsHint::<U::BF> { t: fault.k, fired: fired.clone(), _p: Default::default() });
                }
                hint_idx += 1;
            } else if fault.kind == "hint_coeffs" && !is_bits && outputs.len() == d {
                if hint_idx == fault.call {
                    *executor = Box::new(MassMoveHint::<U::BF> { delta: fault.k.max(1), fired: fired.clone(), _p: Default::default() });
                }
                hint_idx += 1;
            }
        }
    }
    let ops = circuit.ops.len();
    let traces = match pipe::run_circuit::<U>(&circuit, p) {
        Ok(t) => t,
        Err(f) => return Ok(CaseOut { fired: fired.load(Ordering::SeqCst), run_err: Some(f.msg), accepted: None, sample_diff: None, noncanonical: None, ops }),
    };
    let mut noncanonical = None;
    for op in &circuit.ops {
        if let Op::Hint { inputs, outputs, executor } = op {
            let x = *traces.witness_trace.get_value(inputs[0]).unwrap();
            let outs: Vec<U::EF> = outputs.iter().map(|o| *traces.witness_trace.get_value(*o).unwrap()).collect();
            let is_bits = format!("{executor:?}").contains("Bits") || format!("{executor:?}").contains("Binary");
            if !is_bits {
                if outs.iter().any(|c| !crate::gprog::is_base::<U::BF, U::EF>(c)) {
                    noncanonical = Some("extension coefficient with non-zero higher basis components".to_string());
                }
            } else {
                let c0 = <U::EF as BasedVectorSpace<U::BF>>::as_basis_coefficients_slice(&x)[0].as_canonical_u64();
                if outputs.len() <= <U::BF as Field>::bits() {
                    for (i, b) in outs.iter().enumerate() {
                        if *b != U::EF::from_bool((c0 >> i) & 1 == 1) {
                            noncanonical = Some(format!("bit {i} of the {}-bit decomposition of {c0} is not the canonical bit", outputs.len()));
                            break;
                        }
                    }
                }
            }
            if noncanonical.is_some() {
                break;
            }
        }
    }
    let cfg = ProverCfg::default();
    let accepted = (|| -> Result<(), pipe::Fail> {
        let (keys, info) = pipe::keygen::<U>(&circuit, &cfg)?;
        let proof = pipe::prove::<U>(&keys, &traces, &cfg, None)?;
        pipe::verify::<U>(&proof, &cfg, &info.commitment)
    })()
    .map_err(|f| format!("{}: {}", f.stage.name(), f.msg.chars().take(160).collect::<String>()));
    Ok(CaseOut { fired: fired.load(Ordering::SeqCst), run_err: None, accepted: Some(accepted), sample_diff: None, noncanonical, ops })
}

/// Gadget program: x public, decomposed into n bits (and optionally as extension coefficients),
/// with the low bits recomposed so that the decomposition is used downstream.
pub fn gadget_program<U: CircuitUni>(rng: &mut Rng) -> crate::gprog::Program {
    use crate::gprog::Call;
    let order = <U::BF as PrimeField64>::ORDER_U64;
    let full = <U::BF as Field>::bits();
    let d = <U::EF as BasedVectorSpace<U::BF>>::DIMENSION;
    let n = *rng.pick(&[full, full, full - 1, 8, 16, 24]);
    // x chosen so that x + p fits in n bits about half of the time
    let room = if n >= 64 { u64::MAX } else { (1u64 << n).saturating_sub(order) };
    let x = if room > 0 && rng.chance(2, 3) { rng.below(room) } else if n >= full { rng.below(order) } else { rng.below(1u64 << n) };
    let mut calls = vec![Call::Public, Call::DecomposeBits(0, n)];
    let mut publics = vec![vec![x]];
    let k = rng.range(1, n.min(8));
    calls.push(Call::ReconstructBits((1..=k).collect()));
    let mut next = 1 + n + 1;
    if d > 1 && rng.chance(1, 2) {
        calls.push(Call::Public);
        publics.push((0..d).map(|_| rng.below(order)).collect());
        let y = next;
        next += 1;
        calls.push(Call::DecomposeExt(y));
        // use a coefficient downstream
        calls.push(Call::Mul(next, next + 1));
    }
    crate::gprog::Program { calls, publics, privates: vec![] }
}

pub fn run_case(cfg: &str, h: &History, f: &Fault, seed: u64) -> Result<CaseOut, String> {
    match observe(|| match cfg {
        "bb4" => case_bb4(h, f, seed),
        "kb5q1" => case_kb5q1(h, f, seed),
        "kb5q1p1" => case_kb5q1p1(h, f, seed),
        _ => case_kb4(h, f, seed),
    }) {
        Ok(r) => r,
        Err(p) => Err(format!("panic: {p}")),
    }
}

/// (key, clause) if this case violates the property `prop` ("C06" or "C12").
pub fn judge(prop: &str, cfg: &str, f: &Fault, o: &CaseOut) -> Option<(String, String)> {
    let acc = matches!(o.accepted, Some(Ok(())));
    if f.kind == "none" {
        // control arm: honest run must be accepted, samples native, decompositions canonical
        if let Some(e) = &o.run_err {
            return Some((format!("control_run_failed:{cfg}"), format!("fault-free history: run failed: {e}")));
        }
        if !acc {
            return Some((format!("control_rejected:{cfg}"), format!("fault-free history: proof not accepted: {:?}", o.accepted)));
        }
        if let Some(d) = &o.sample_diff {
            return Some((format!("control_sample_mismatch:{cfg}"), d.clone()));
        }
        return None;
    }
    if !acc {
        return None;
    }
    if prop == "C06" {
        if let Some(d) = &o.sample_diff {
            let mode = ["replace", "reset", "choose"][f.mode.min(2) as usize];
            // a differing sample that is a recomposed extension element (5 coordinates printed,
            // not all but the first zero) names the path the deviation took
            let via_ext = d.split("native").next().is_some_and(|c| {
                let nums: Vec<&str> = c.split('[').nth(1).unwrap_or("").split(']').next().unwrap_or("").split(',').map(|x| x.trim()).collect();
                nums.len() > 1 && nums[1..].iter().any(|x| *x != "0")
            });
            let site = if f.kind == "perm_rate" && via_ext {
                format!("{}_{mode}_via_sample_ext", f.kind)
            } else if f.kind.starts_with("perm") {
                format!("{}_{mode}", f.kind)
            } else if f.kind == "free_lane" {
                format!("free_lane_{}", if (f.mode as usize) < state_shape(cfg).1 { "rate" } else { "capacity" })
            } else {
                f.kind.clone()
            };
            return Some((format!("{site}:{cfg}"), format!("proof ACCEPTED although a sampled challenge differs from the native transcript ({d}); fault {f:?}")));
        }
    } else if let Some(n) = &o.noncanonical {
        return Some((format!("{}:{cfg}", f.kind), format!("proof ACCEPTED with a non-canonical decomposition: {n}; fault {f:?}")));
    }
    None
}

fn gen_history_for(prop: &str, rng: &mut Rng, order: u64, d: usize, rate: usize, tier_len: usize) -> History {
    if prop == "C12" {
        // gadget-heavy histories: small observed values, sample_bits, pow checks, observe_ext
        let mut ops = Vec::new();
        let n = rng.range(2, tier_len.min(10));
        for _ in 0..n {
            match rng.below(6) {
                0 => ops.push(ChOp::Observe(rng.below(1 << 20))),
                1 => ops.push(ChOp::ObserveExt((0..d).map(|_| rng.below(order)).collect())),
                2 => ops.push(ChOp::SampleBits(rng.range(1, 20))),
                3 => ops.push(ChOp::CheckPow(rng.range(1, 4), false)),
                4 => ops.push(ChOp::SampleExt),
                _ => ops.push(ChOp::Sample),
            }
        }
        History { ops }
    } else {
        let mut h = chal::gen_history(rng, order, d, rate, tier_len, false);
        // make sure there are at least two permutations
        for _ in 0..rate + 1 {
            h.ops.push(ChOp::Observe(rng.below(order)));
        }
        h.ops.push(ChOp::Sample);
        h
    }
}

fn gadget_run<U: CircuitUni>(ctx: &Ctx, idx: u64, out: &mut RunOut) {
    let mut rng = Rng::new(ctx.seed, "C12-gadget", idx);
    for j in 0..8u64 {
        let p = gadget_program::<U>(&mut rng);
        let seed = mix(mix(ctx.seed, idx), 100 + j);
        let none = Fault { kind: "none".into(), call: 0, mode: 0, k: 0 };
        let base = match gadget_case::<U>(&p, &none, seed) {
            Ok(o) => o,
            Err(_) => {
                out.count("gadget_not_buildable");
                continue;
            }
        };
        out.evals += 1;
        if let Some((k, c)) = judge("C12", U::NAME, &none, &base) {
            out.violate(k, c, json!({"gadget": true, "universe": U::NAME, "program": p, "fault": none, "seed": seed}));
            continue;
        }
        out.count("gadget_control_arm_accepted");
        if out.samples.len() < 2 {
            out.samples.push(json!({"universe": U::NAME, "gadget_program": p}));
        }
        for f in [
            Fault { kind: "hint_bits".into(), call: 0, mode: 0, k: 1 },
            Fault { kind: "hint_bits".into(), call: 0, mode: 0, k: 2 },
            Fault { kind: "hint_bits_limbs".into(), call: 0, mode: 0, k: 1 + rng.below(1000) },
            Fault { kind: "hint_coeffs".into(), call: 0, mode: 0, k: 1 + rng.below(1000) },
        ] {
            let Ok(o) = gadget_case::<U>(&p, &f, seed) else { continue };
            out.evals += 1;
            out.count(&format!("configured_{}", f.kind));
            if o.fired == 0 {
                out.count(&format!("not_fired_{}", f.kind));
                continue;
            }
            out.count(&format!("fired_{}", f.kind));
            let nbits = match &p.calls[1] {
                crate::gprog::Call::DecomposeBits(_, n) => *n,
                _ => 0,
            };
            out.distinct.insert(crate::core::prng::fnv64(format!("gadget:{}:{}:{}:{nbits}", U::NAME, f.kind, f.k.min(2)).as_bytes()));
            if o.run_err.is_some() {
                out.count("forged_run_rejected_by_runner");
            } else if matches!(o.accepted, Some(Ok(()))) {
                out.count("forged_proof_accepted");
            } else {
                out.count("forged_proof_rejected");
            }
            if let Some((k, c)) = judge("C12", U::NAME, &f, &o) {
                let key = if f.kind == "hint_bits" { format!("{}_w{}", k, if nbits >= <U::BF as Field>::bits() { "full".to_string() } else { nbits.to_string() }) } else { k };
                out.violate(key, c, json!({"gadget": true, "universe": U::NAME, "program": p, "fault": f, "seed": seed}));
            }
        }
        // byzantine prover at matrix depth (hook H2): after an honest run, one hinted output (a bit
        // or a coefficient of a decomposition) gets another value in every table cell that carries
        // its slot; nothing else is recomputed, so the committed decomposition is not the
        // canonical one of the committed `x`
        matrix_reassign::<U>(&p, seed, out);
    }
}

fn matrix_reassign<U: CircuitUni>(p: &crate::gprog::Program, seed: u64, out: &mut RunOut) {
    use crate::props::c04;
    let cfg = ProverCfg::default();
    let Ok(h) = c04::honest::<U>(p, &cfg, seed) else {
        out.count("matrix_arm_honest_pipeline_failed");
        return;
    };
    let slots: Vec<(u64, bool)> = h
        .circuit
        .ops
        .iter()
        .filter_map(|op| if let Op::Hint { outputs, .. } = op { Some(outputs.iter().map(|w| (w.0 as u64, outputs.len() != U::D || U::D == 1)).collect::<Vec<_>>()) } else { None })
        .flatten()
        .collect();
    // all coefficient outputs, and the first, the last and a middle bit of every bit decomposition
    let nbit = slots.iter().filter(|x| x.1).count();
    let mut bit_no = 0usize;
    for (slot, is_bit) in slots {
        if is_bit {
            bit_no += 1;
            if !(bit_no == 1 || bit_no == nbit || bit_no == nbit / 2 + 1) {
                continue;
            }
        }
        if !h.dec.bus.contains_key(&slot) {
            out.count("hinted_slot_not_on_bus");
            continue;
        }
        let f = c04::CellFault { kind: "slot_reassign".into(), table: 0, row: slot as usize, col: 0, delta: if is_bit { 0 } else { 1 }, row2: 0 };
        let Some(forged) = c04::forge::<U>(&h, &f) else { continue };
        out.evals += 1;
        out.count(if is_bit { "fired_matrix_reassign_bit" } else { "fired_matrix_reassign_coeff" });
        out.distinct.insert(crate::core::prng::fnv64(format!("matrix:{}:{is_bit}", U::NAME).as_bytes()));
        let (accepted, _) = c04::prove_forged::<U>(&h, forged);
        if accepted {
            out.violate(
                format!("matrix_reassign_{}:{}", if is_bit { "bit" } else { "coeff" }, U::NAME),
                format!("hinted decomposition output in witness slot {slot} reassigned in every committed cell of that slot (nothing recomputed): the proof is ACCEPTED, so the committed decomposition is not tied to the decomposed value"),
                json!({"gadget": true, "matrix": true, "universe": U::NAME, "program": p, "slot": slot, "seed": seed, "fault": {"kind": "matrix_reassign", "call": 0, "mode": 0, "k": 0}}),
            );
        } else {
            out.count("matrix_reassign_rejected");
        }
    }
}

pub fn one_run(ctx: &Ctx, prop: &str, idx: u64, out: &mut RunOut) {
    if prop == "C12" {
        if idx % 2 == 0 {
            gadget_run::<crate::uni::Kb4>(ctx, idx, out);
        } else {
            gadget_run::<crate::uni::Bb4>(ctx, idx, out);
        }
    }
    let mut rng = Rng::new(ctx.seed, prop, idx);
    let cfg = if prop == "C06" { ["kb4", "bb4", "kb5q1", "kb4", "bb4", "kb5q1p1"][(idx % 6) as usize] } else if idx % 2 == 0 { "kb4" } else { "bb4" };
    let (order, d, rate) = crate::props::c05::cfg_params(cfg);
    let h = gen_history_for(prop, &mut rng, order, d, rate, ctx.tier.pick(12, 24));
    let seed = mix(mix(ctx.seed, idx), 7);
    // control arm first
    let none = Fault { kind: "none".into(), call: 0, mode: 0, k: 0 };
    let base = match run_case(cfg, &h, &none, seed) {
        Ok(o) => o,
        Err(e) => {
            out.count(&format!("history_not_buildable_{}", e.split(|c: char| !c.is_alphanumeric()).find(|x| !x.is_empty()).unwrap_or("x")));
            return;
        }
    };
    out.evals += 1;
    out.steps += h.ops.len() as u64;
    if let Some((k, c)) = judge(prop, cfg, &none, &base) {
        out.violate(k, c, json!({"config": cfg, "history": h, "fault": none, "seed": seed}));
        return;
    }
    out.count("control_arm_accepted");
    if out.samples.is_empty() {
        out.samples.push(json!({"config": cfg, "history": h, "circuit_ops": base.ops}));
    }
    // fault plans
    let mut plans: Vec<Fault> = Vec::new();
    if prop == "C06" {
        for call in 0..6usize {
            for mode in 0..3u8 {
                plans.push(Fault { kind: "perm_capacity".into(), call, mode, k: 0 });
            }
            plans.push(Fault { kind: "perm_rate".into(), call, mode: 0, k: 0 });
        }
        for call in 0..3usize {
            plans.push(Fault { kind: "hint_coeffs".into(), call, mode: 0, k: 1 + rng.below(1000) });
        }
        // every limb of the private input state of the first permutations
        let (limbs, _) = state_shape(cfg);
        for call in 0..4usize {
            for lane in 0..limbs {
                plans.push(Fault { kind: "free_lane".into(), call, mode: lane as u8, k: 1 + rng.below(order - 1) });
            }
        }
    } else {
        for call in 0..4usize {
            plans.push(Fault { kind: "hint_bits".into(), call, mode: 0, k: 1 });
            plans.push(Fault { kind: "hint_bits_limbs".into(), call, mode: 0, k: 1 + rng.below(1000) });
            plans.push(Fault { kind: "hint_coeffs".into(), call, mode: 0, k: 1 + rng.below(1000) });
        }
    }
    for f in plans {
        let o = match run_case(cfg, &h, &f, seed) {
            Ok(o) => o,
            Err(_) => continue,
        };
        out.evals += 1;
        out.count(&format!("configured_{}", f.kind));
        if o.fired == 0 {
            out.count(&format!("not_fired_{}", f.kind));
            continue;
        }
        out.count(&format!("fired_{}", f.kind));
        out.distinct.insert(crate::core::prng::fnv64(format!("{cfg}:{}:{}:{}", f.kind, f.call, f.mode).as_bytes()));
        if o.run_err.is_some() {
            out.count("forged_run_rejected_by_runner");
        } else if matches!(o.accepted, Some(Ok(()))) {
            out.count("forged_proof_accepted");
            if o.sample_diff.is_none() && o.noncanonical.is_none() {
                out.count("accepted_but_harmless");
            }
        } else {
            out.count("forged_proof_rejected");
        }
        if let Some((k, c)) = judge(prop, cfg, &f, &o) {
            // minimise the history: drop ops while the same key persists
            let mut cur = h.clone();
            let mut i = cur.ops.len();
            while i > 0 {
                i -= 1;
                if cur.ops.len() <= 1 {
                    break;
                }
                let mut ops = cur.ops.clone();
                ops.remove(i);
                let cand = History { ops };
                if let Ok(o2) = run_case(cfg, &cand, &f, seed) {
                    if o2.fired > 0 && judge(prop, cfg, &f, &o2).is_some_and(|x| x.0 == k) {
                        cur = cand;
                    }
                }
            }
            out.violate(k, c, json!({"config": cfg, "history": cur, "fault": f, "seed": seed}));
        }
    }
}

pub fn replay(ctx: &Ctx, body: &Value) -> i32 {
    let d = &body["detail"];
    let h: History = serde_json::from_value(d["history"].clone()).unwrap_or(History { ops: vec![] });
    let f: Fault = serde_json::from_value(d["fault"].clone()).unwrap_or(Fault { kind: "none".into(), call: 0, mode: 0, k: 0 });
    if d["gadget"].as_bool() == Some(true) {
        let p: crate::gprog::Program = match serde_json::from_value(d["program"].clone()) {
            Ok(p) => p,
            Err(e) => {
                eprintln!("harness error: bad replay file: {e}");
                return 2;
            }
        };
        let seed = d["seed"].as_u64().unwrap_or(1);
        let uni = d["universe"].as_str().unwrap_or("U-KB4").to_string();
        if d["matrix"].as_bool() == Some(true) {
            let mut tmp = RunOut::default();
            if uni == "U-BB4" { matrix_reassign::<crate::uni::Bb4>(&p, seed, &mut tmp) } else { matrix_reassign::<crate::uni::Kb4>(&p, seed, &mut tmp) };
            let key = body["key"].as_str().unwrap_or("");
            return if tmp.violations.iter().any(|v| v.key == key) {
                println!("VIOLATION property={} replay={}", ctx.prop, ctx.replay.as_ref().unwrap().display());
                1
            } else {
                println!("replay did not reproduce");
                0
            };
        }
        let r = if uni == "U-BB4" { gadget_case::<crate::uni::Bb4>(&p, &f, seed) } else { gadget_case::<crate::uni::Kb4>(&p, &f, seed) };
        return match r {
            Ok(o) => {
                println!("replay: fired={} run_err={:?} accepted={:?} noncanonical={:?}", o.fired, o.run_err, o.accepted, o.noncanonical);
                if judge("C12", &uni, &f, &o).is_some() {
                    println!("VIOLATION property={} replay={}", ctx.prop, ctx.replay.as_ref().unwrap().display());
                    1
                } else {
                    println!("replay did not reproduce");
                    0
                }
            }
            Err(e) => {
                println!("replay: not buildable: {e}");
                0
            }
        };
    }
    let cfg = d["config"].as_str().unwrap_or("kb4").to_string();
    let seed = d["seed"].as_u64().unwrap_or(1);
    match run_case(&cfg, &h, &f, seed) {
        Ok(o) => {
            println!("replay: fired={} run_err={:?} accepted={:?} sample_diff={:?} noncanonical={:?}", o.fired, o.run_err, o.accepted, o.sample_diff, o.noncanonical);
            if let Some((k, c)) = judge(&ctx.prop, &cfg, &f, &o) {
                println!("VIOLATION property={} replay={}", ctx.prop, ctx.replay.as_ref().unwrap().display());
                println!("  key={k} clause={c}");
                return 1;
            }
            println!("replay did not reproduce");
            0
        }
        Err(e) => {
            println!("replay: case not buildable: {e}");
            0
        }
    }
}

pub fn main(ctx: &Ctx) -> i32 {
    let prop = ctx.prop.clone();
    if let Some(path) = &ctx.replay {
        let body: Value = match std::fs::read_to_string(path).ok().and_then(|s| serde_json::from_str(&s).ok()) {
            Some(b) => b,
            None => {
                eprintln!("harness error: cannot read replay file");
                return 2;
            }
        };
        return replay(ctx, &body);
    }
    let runs: u64 = if prop == "C12" { ctx.tier.pick(300, 3000) } else { ctx.tier.pick(64, 800) };
    let res = crate::core::pool::run_jobs(runs, |idx| {
        let mut out = RunOut::default();
        one_run(ctx, &prop, idx, &mut out);
        let mut d = crate::core::prng::Digest::new();
        d.u64(out.evals);
        for (k, v) in &out.counters {
            d.str(k);
            d.u64(*v);
        }
        out.digest = d.finish();
        out
    });
    let outs = match res {
        Ok(o) => o,
        Err(e) => {
            eprintln!("harness error: {e}");
            return 2;
        }
    };
    let mut total = RunOut::default();
    for o in outs {
        total.merge(o);
    }
    let rule = if prop == "C06" {
        "one run = one seeded challenger history with >= 2 permutations (U-KB4 / U-BB4, recompose table on), proven and verified fault-free first (control arm), then under each fault plan: the permutation closure deviates on call k in {0..5} in its capacity lanes (replace / reset / choose) or its rate lanes, or an extension-decomposition hint moves mass between coefficients; the run continues honestly, the forged traces are proven by the real prover and checked by the commitment-binding verifier; accepted proofs are compared sample by sample with the native DuplexChallenger. distinct = distinct (config, fault kind, call, mode) that fired."
    } else {
        "one run = one seeded gadget history (small observed values, sample_bits, proof-of-work checks, observe_ext / sample_ext) proven fault-free (control arm) and then with Op::Hint executors replaced: binary decomposition emitting the bits of x + p (when that fits the 31-bit width), extension decomposition emitting c0 - d*X, c1 + d; the forged traces are proven and verified; an accepted proof whose decomposition outputs are not the canonical bits / base-field coefficients is a violation. distinct = distinct (config, fault kind, hint index) that fired."
    };
    crate::core::report::finish(
        ctx,
        &total,
        runs,
        Spec {
            level: "fault_enumeration",
            rule,
            exhaustive: false,
            assumptions: vec![
                "the deviating permutation wraps the real permutation and alters only the chosen output lanes of one call; the table's trace generator recomputes the true permutation from the recorded inputs (the split a malicious prover exploits)".into(),
                "verifier node binds the preprocessed commitment to its own compilation".into(),
            ],
            components_real: vec!["CircuitChallenger", "Poseidon2 executor + trace generator", "recompose table", "prove_all_tables", "verify_all_tables"],
            components_stub: vec!["permutation closure wrapper (the fault)", "replacement HintExecutors (the fault)"],
            not_covered: vec!["D=1 chained configurations, Goldilocks (proving universes not wired)", "Poseidon1"],
            extra: json!({}),
        },
    )
}
