//! C03 — compilation never drops an asserted relation.
//! The prover is byzantine: it ignores the honest runner (and with it every side check the runner
//! performs) and builds an assignment that obeys only the emitted operation list. If such an
//! assignment exists for inputs that violate the source program, a relation was dropped; the
//! counter-example is confirmed end to end by proving the forged trace with the real prover and
//! verifying it with the real verifier.

use serde_json::json;

use crate::core::prng::{Rng, mix};
use crate::core::report::{Ctx, RunOut, Spec};
use crate::gprog::{self, GenCfg, Program, f_from_u64s};
use crate::opsat;
use crate::pipe;
use crate::uni::{BuilderOpts, CircuitUni, ProverCfg};

#[derive(Debug, Clone, PartialEq, Eq)]
pub enum Verdict {
    /// source satisfied, or ops reject the forged assignment: nothing to report
    Fine,
    /// ops-only evaluator accepts an assignment for source-violating inputs, and the forged
    /// trace was proven and accepted by the real verifier
    DroppedConfirmed(String),
    /// ops-only evaluator accepts, but the real proof system rejected the forged trace
    DroppedUnconfirmed(String),
    Skipped(&'static str),
}

pub fn check<U: CircuitUni>(p: &Program, hash_seed: u64, cfg: &ProverCfg) -> Verdict {
    let r = gprog::ref_eval::<U::BF, U::EF>(p);
    if r.precond_violated {
        return Verdict::Skipped("precondition");
    }
    if r.div_zero {
        return Verdict::Skipped("div_zero");
    }
    foldhash::sim::set_seed(hash_seed);
    let opts = BuilderOpts::default();
    let circuit = match pipe::build_circuit::<U>(p, opts, true) {
        Ok(c) => c,
        Err(_) => return Verdict::Skipped("builder_rejected"),
    };
    let pubs: Vec<U::EF> = p.publics.iter().map(|v| f_from_u64s::<U::BF, U::EF>(v)).collect();
    let privs: Vec<U::EF> = p.privates.iter().map(|v| f_from_u64s::<U::BF, U::EF>(v)).collect();
    // candidate assignments: the honest-wherever-determined one, then one per hint output with that
    // output off by one (hint outputs are bound by the emitted bool checks / recompositions only:
    // if one of those relations were dropped, only a deviating hint value can show it)
    let n_dev = opsat::hint_outputs(&circuit).min(12);
    for dev in std::iter::once(None).chain((0..n_dev).map(Some)) {
        let w = opsat::byzantine_assignment_dev(&circuit, &pubs, &privs, dev);
        let v = (|| -> Verdict {
        if std::env::var("VERIF_DUMP_OPS").is_ok() {
            for (i, op) in circuit.ops.iter().enumerate() {
                eprintln!("op {i}: {op:?}");
            }
            let mut tags: Vec<_> = circuit.tag_to_witness.iter().collect();
            tags.sort();
            eprintln!("tags: {tags:?}");
            eprintln!("public_rows {:?} private_rows {:?}", circuit.public_rows, circuit.private_input_rows);
            for (i, v) in w.iter().enumerate() {
                eprintln!("w[{i}] = {v:?}");
            }
        }
        if opsat::ops_violation(&circuit, &w, &pubs).is_some() {
            return Verdict::Fine; // the emitted ops do reject this assignment
        }
        // Does the assignment satisfy the *source program*? Inputs are whatever the assignment holds
        // in the input slots (private inputs are the prover's choice); every asserted relation must
        // hold and every expression's slot must hold the value the expression denotes.
        let mut q = p.clone();
        for (i, wid) in circuit.public_rows.iter().enumerate() {
            q.publics[i] = gprog::f_to_u64s::<U::BF, U::EF>(&w[wid.0 as usize]);
        }
        for (i, wid) in circuit.private_input_rows.iter().enumerate() {
            q.privates[i] = gprog::f_to_u64s::<U::BF, U::EF>(&w[wid.0 as usize]);
        }
        // hinted decomposition coefficients are the prover's choice too: read them off the assignment
        let mut hinted = std::collections::BTreeMap::new();
        let d = <U::EF as p3_field::BasedVectorSpace<U::BF>>::DIMENSION;
        for (ci, c) in p.calls.iter().enumerate() {
            if matches!(c, gprog::Call::DecomposeExt(_)) {
                for i in r.out_base[ci]..r.out_base[ci] + d {
                    if let Some(wid) = circuit.tag_to_witness.get(&format!("v{i}")) {
                        hinted.insert(i, w[wid.0 as usize]);
                    }
                }
            }
        }
        let r2 = gprog::ref_eval_hinted::<U::BF, U::EF>(&q, &hinted);
        if r2.precond_violated || r2.div_zero {
            return Verdict::Skipped("precondition");
        }
        let mut why = r2.first_violation.clone();
        if why.is_none() {
            // the product slot of a fused MulAdd that nothing else mentions is a don't-care
            let dont_care = opsat::pure_intermediate_slots(&circuit);
            for (i, v) in r2.vals.iter().enumerate() {
                if let (Some(v), Some(wid)) = (v, circuit.tag_to_witness.get(&format!("v{i}"))) {
                    if w[wid.0 as usize] != *v && !dont_care.contains(&wid.0) {
                        let ci = r2.out_base.iter().rposition(|b| *b <= i).unwrap_or(0);
                        why = Some(format!("call {ci}: slot of the expression holds a value the expression does not denote"));
                        break;
                    }
                }
            }
        }
        let Some(why) = why else {
            return Verdict::Fine; // the assignment satisfies the source program too
        };
        // confirm with the real prover and verifier
        let traces = opsat::traces_from_assignment(&circuit, &w);
        let confirmed = (|| -> Result<(), pipe::Fail> {
            let (keys, info) = pipe::keygen::<U>(&circuit, cfg)?;
            let proof = pipe::prove::<U>(&keys, &traces, cfg, None)?;
            pipe::verify::<U>(&proof, cfg, &info.commitment)
        })();
        match confirmed {
            Ok(()) => Verdict::DroppedConfirmed(why),
            Err(f) => Verdict::DroppedUnconfirmed(format!("{why}; forged trace rejected at {}: {}", f.stage.name(), f.msg.chars().take(120).collect::<String>())),
        }
        })();
        match (&v, dev) {
            (Verdict::Fine, _) => {}
            (_, None) => return v,
            (Verdict::DroppedConfirmed(_) | Verdict::DroppedUnconfirmed(_), Some(_)) => return v,
            _ => {}
        }
    }
    Verdict::Fine
}

/// Finding key: which kind of source relation was dropped (the call kind of the first violated
/// relation in the minimised program).
fn key_of(p: &Program, why: &str) -> String {
    // why = "call <i>: <text>"
    let ci = why.strip_prefix("call ").and_then(|s| s.split(':').next()).and_then(|s| s.trim().parse::<usize>().ok());
    let kind = ci.and_then(|i| p.calls.get(i)).map(|c| c.kind()).unwrap_or("?");
    format!("dropped_relation:{kind}")
}

pub fn one_run<U: CircuitUni>(ctx: &Ctx, idx: u64, out: &mut RunOut) {
    let mut rng = Rng::new(ctx.seed, "C03", idx);
    for k in 0..16u64 {
        let gcfg = GenCfg {
            max_calls: ctx.tier.pick(30, 60),
            horner: *rng.pick(&[1, 0, 2]),
            creator_aliasing: rng.chance(1, 4),
            claim_privates: true,
            ..GenCfg::default()
        };
        let mut p = gprog::generate::<U::BF, U::EF>(&mut rng, &gcfg);
        // violate the source: change an input, or (one case in four) a constant
        if rng.chance(1, 4) {
            if gprog::perturb_const::<U::BF, U::EF>(&mut p, &mut rng).is_none() {
                continue;
            }
            out.count("perturbed_constant");
        } else if gprog::perturb_input::<U::BF, U::EF>(&mut p, &mut rng).is_none() {
            continue;
        }
        let h = mix(mix(ctx.seed, idx), k);
        let cfg = ProverCfg::default();
        out.evals += 1;
        out.steps += p.calls.len() as u64;
        match check::<U>(&p, h, &cfg) {
            Verdict::Fine => {
                let r = gprog::ref_eval::<U::BF, U::EF>(&p);
                if r.sat {
                    out.count("perturbation_kept_source_satisfied");
                } else {
                    out.count("violating_input_rejected_by_ops");
                    out.distinct.insert(mix(gprog::kinds_signature(&p), 1));
                }
            }
            Verdict::Skipped(w) => out.count(&format!("skipped_{w}")),
            Verdict::DroppedUnconfirmed(w) if w.contains("forged trace rejected at keygen") => {
                // key generation does not see the assignment: the circuit cannot be proven by
                // anybody, so the real AIRs never get to contradict the op-list evaluator, and the
                // property is stated on the operation list alone
                out.count("dropped_relation_in_unprovable_circuit");
                let still = |q: &Program| -> bool { matches!(check::<U>(q, h, &cfg), Verdict::DroppedUnconfirmed(x) if x.contains("forged trace rejected at keygen")) };
                let m = gprog::minimise(&p, U::D, &still);
                let why_m = match check::<U>(&m, h, &cfg) {
                    Verdict::DroppedUnconfirmed(x) => x,
                    _ => w,
                };
                out.violate(
                    format!("{}:circuit_refused_by_keygen", key_of(&m, &why_m)),
                    format!("inputs violate the source program ({}); an assignment satisfying every emitted op exists (the relation is implied by no emitted op); key generation refuses the circuit, so no proof of it exists either way", why_m.chars().take(300).collect::<String>()),
                    json!({"universe": U::NAME, "program": m, "hash_seed": h, "unconfirmed": true}),
                );
            }
            Verdict::DroppedUnconfirmed(w) => {
                out.count("ops_accept_but_proof_system_rejects");
                let stage = w.split("forged trace rejected at ").nth(1).unwrap_or("?").split(|c: char| !c.is_alphanumeric() && c != ' ' && c != ':').next().unwrap_or("?").replace([' ', ':'], "_");
                out.count(&format!("unconfirmed_at_{}", stage.chars().take(60).collect::<String>()));
            }
            Verdict::DroppedConfirmed(why) => {
                out.count("dropped_relation_confirmed");
                let still = |q: &Program| -> bool { matches!(check::<U>(q, h, &cfg), Verdict::DroppedConfirmed(_)) };
                let m = gprog::minimise(&p, U::D, &still);
                let why_m = match check::<U>(&m, h, &cfg) {
                    Verdict::DroppedConfirmed(w) => w,
                    _ => why,
                };
                out.violate(
                    key_of(&m, &why_m),
                    format!("inputs violate the source program ({why_m}); an assignment satisfying every emitted op exists, was proven by the real prover and ACCEPTED by the real verifier"),
                    json!({"universe": U::NAME, "program": m, "hash_seed": h}),
                );
            }
        }
        if out.samples.is_empty() {
            out.samples.push(json!({"universe": U::NAME, "program_with_violating_inputs": p, "hash_seed": h}));
        }
    }
}

pub fn replay(ctx: &Ctx, body: &serde_json::Value) -> i32 {
    let d = &body["detail"];
    let p: Program = match serde_json::from_value(d["program"].clone()) {
        Ok(p) => p,
        Err(e) => {
            eprintln!("harness error: bad replay file: {e}");
            return 2;
        }
    };
    let h = d["hash_seed"].as_u64().unwrap_or(1);
    let v = crate::with_uni!(d["universe"].as_str().unwrap_or(""), U, check::<U>(&p, h, &ProverCfg::default()));
    println!("replay verdict: {v:?}");
    let unprovable = d["unconfirmed"].as_bool().unwrap_or(false) && matches!(&v, Verdict::DroppedUnconfirmed(x) if x.contains("forged trace rejected at keygen"));
    if matches!(v, Verdict::DroppedConfirmed(_)) || unprovable {
        println!("VIOLATION property={} replay={}", ctx.prop, ctx.replay.as_ref().unwrap().display());
        1
    } else {
        0
    }
}

pub fn main(ctx: &Ctx) -> i32 {
    if let Some(path) = &ctx.replay {
        let body: serde_json::Value = match std::fs::read_to_string(path).ok().and_then(|s| serde_json::from_str(&s).ok()) {
            Some(b) => b,
            None => {
                eprintln!("harness error: cannot read replay file");
                return 2;
            }
        };
        return replay(ctx, &body);
    }
    let runs: u64 = ctx.tier.pick(20000, 400000);
    let res = crate::core::pool::run_jobs(runs, |idx| {
        let mut out = RunOut::default();
        crate::with_uni!(crate::uni::uni_of(idx), U, one_run::<U>(ctx, idx, &mut out));
        let mut d = crate::core::prng::Digest::new();
        d.u64(out.evals);
        for (k, v) in &out.counters {
            d.str(k);
            d.u64(*v);
        }
        out.digest = d.finish();
        out
    });
    let outs = match res {
        Ok(o) => o,
        Err(e) => {
            eprintln!("harness error: {e}");
            return 2;
        }
    };
    let mut total = RunOut::default();
    for o in outs {
        total.merge(o);
    }
    crate::core::report::finish(
        ctx,
        &total,
        runs,
        Spec {
            level: "exploration",
            rule: "seeded G-prog programs with one input perturbed so that the reference interpreter reports a violated source relation; the byzantine witness generator builds an assignment from the emitted ops alone (no runner, no witness_rewrite back-fill, MulAdd product slot unconstrained, free hint outputs); the ops-only evaluator decides it; a counter-example is confirmed by real prove + real verify (commitment-binding verifier). distinct = distinct call-kind sequences among source-violating inputs that the ops rejected.",
            exhaustive: false,
            assumptions: vec![
                "the byzantine generator explores one candidate assignment per input (the one obtained by executing the emitted ops as relations); it is a search, not a decision procedure for OpsSat".into(),
                "only confirmed counter-examples (accepted proofs of false statements) are reported".into(),
            ],
            components_real: vec!["CircuitBuilder/lowerer/optimizer", "get_airs_and_degrees_with_prep", "prove_all_tables", "verify_all_tables"],
            components_stub: vec!["honest CircuitRunner replaced by the byzantine witness generator (that is the fault)"],
            not_covered: vec!["non-primitive ops in programs", "D != 4"],
            extra: json!({}),
        },
    )
}
