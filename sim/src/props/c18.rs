//! C18 — compilation and key generation are deterministic.
//! The one true scheduler of this codebase — hash iteration order — is behind the foldhash seam:
//! every corpus item is compiled + key-generated + run + proven under N seeded iteration orders in
//! this process, and again in fresh processes with the seam off (real per-hasher randomness, real
//! ASLR and allocator); all digests of an item must be equal.

use serde_json::json;

use crate::cdigest::{circuit_digest, iteration_fingerprint};
use crate::core::pool::observe;
use crate::core::prng::{Rng, mix};
use crate::core::report::{Ctx, RunOut, Spec, Tier};
use crate::gprog::{self, GenCfg, Program};
use crate::pipe;
use crate::uni::{BuilderOpts, CircuitUni, ProverCfg, digest_key_info};

#[derive(Clone, Debug, PartialEq, Eq)]
pub struct ItemDigest {
    pub circuit: u64,
    pub keys: u64,
    pub traces: u64,
    pub proof: u64,
    pub iter_fp: u64,
    pub hasher_draws: u64,
}

pub fn item_digest<U: CircuitUni>(p: &Program, opts: BuilderOpts, cfg: &ProverCfg, hash_seed: Option<u64>, with_proof: bool) -> Result<ItemDigest, String> {
    match hash_seed {
        Some(h) => foldhash::sim::set_seed(h),
        None => foldhash::sim::disable(),
    }
    let c = pipe::build_circuit::<U>(p, opts, true).map_err(|f| format!("build:{}", f.msg))?;
    let circuit = circuit_digest::<U::BF, U::EF>(&c);
    let iter_fp = iteration_fingerprint(&c);
    let (keys, info) = pipe::keygen::<U>(&c, cfg).map_err(|f| format!("keygen:{}", f.msg))?;
    let kd = digest_key_info(&info);
    let traces = pipe::run_circuit::<U>(&c, p).map_err(|f| format!("run:{}", f.msg))?;
    let td = pipe::traces_digest::<U>(&traces);
    let pd = if with_proof {
        let proof = pipe::prove::<U>(&keys, &traces, cfg, None).map_err(|f| format!("prove:{}", f.msg))?;
        pipe::proof_digest::<U>(&proof)
    } else {
        0
    };
    let draws = if hash_seed.is_some() { foldhash::sim::draws() } else { 0 };
    Ok(ItemDigest { circuit, keys: kd, traces: td, proof: pd, iter_fp, hasher_draws: draws })
}

/// The corpus item for run index `idx`: a pure function of (VERIF_SEED, idx).
pub fn corpus_item<U: CircuitUni>(seed: u64, idx: u64, tier: Tier) -> (Program, BuilderOpts, ProverCfg) {
    let mut rng = Rng::new(seed, "C18", idx);
    let opts = BuilderOpts { poseidon: false, recompose: rng.chance(1, 3) };
    let gcfg = GenCfg {
        max_calls: tier.pick(60, 120),
        min_calls: 10,
        horner: *rng.pick(&[1, 1, 0]),
        creator_aliasing: false,
        claim_privates: true,
        recompose_npo: opts.recompose,
        ..GenCfg::default()
    };
    let p = gprog::generate::<U::BF, U::EF>(&mut rng, &gcfg);
    let cfg = ProverCfg::swarm(&mut rng, opts);
    (p, opts, cfg)
}

fn first_diff(a: &ItemDigest, b: &ItemDigest) -> &'static str {
    if a.circuit != b.circuit {
        "circuit (ops / witness numbering / maps)"
    } else if a.keys != b.keys {
        "verifying data (preprocessed columns / table order / degrees / commitment)"
    } else if a.traces != b.traces {
        "traces"
    } else {
        "proof bytes"
    }
}

pub fn one_run<U: CircuitUni>(ctx: &Ctx, idx: u64, nseeds: u64, out: &mut RunOut) {
    let (p, opts, cfg) = corpus_item::<U>(ctx.seed, idx, ctx.tier);
    let r = gprog::ref_eval::<U::BF, U::EF>(&p);
    if !r.sat || r.precond_violated {
        out.count("generator_unsat_skipped");
        return;
    }
    let mut base: Option<(u64, ItemDigest)> = None;
    let mut fps = std::collections::BTreeSet::new();
    for j in 0..nseeds {
        let h = mix(mix(ctx.seed, idx), 1000 + j);
        let with_proof = j < 2;
        let d = match item_digest::<U>(&p, opts, &cfg, Some(h), with_proof) {
            Ok(d) => d,
            Err(e) => {
                out.count(&format!("item_failed_{}", e.split(':').next().unwrap_or("x")));
                return;
            }
        };
        out.evals += 1;
        out.steps += p.calls.len() as u64;
        out.count_n("hasher_seed_draws", d.hasher_draws);
        fps.insert(d.iter_fp);
        match &base {
            None => base = Some((h, d)),
            Some((h0, d0)) => {
                let same = d0.circuit == d.circuit && d0.keys == d.keys && d0.traces == d.traces && (!with_proof || d0.proof == d.proof);
                if !same {
                    let what = first_diff(d0, &d);
                    let (ha, hb) = (*h0, h);
                    let key = format!("hash_order_dependent:{}", what.split(' ').next().unwrap());
                    let still = |q: &Program| -> bool {
                        let a = item_digest::<U>(q, opts, &cfg, Some(ha), false);
                        let b = item_digest::<U>(q, opts, &cfg, Some(hb), false);
                        matches!((a, b), (Ok(a), Ok(b)) if a.circuit != b.circuit || a.keys != b.keys || a.traces != b.traces)
                    };
                    let m = if what != "proof bytes" { gprog::minimise(&p, U::D, &still) } else { p.clone() };
                    out.violate(
                        key,
                        format!("same program, hash seeds {ha} vs {hb}: {what} differ"),
                        json!({"universe": U::NAME, "program": m, "cfg": cfg.to_json(), "recompose": opts.recompose, "seed_a": ha, "seed_b": hb}),
                    );
                    return;
                }
            }
        }
    }
    out.count_n("distinct_iteration_orders", fps.len() as u64);
    if let Some((_, d)) = base {
        out.distinct.insert(d.circuit);
        out.digest = mix(mix(d.circuit, d.keys), mix(d.traces, d.proof));
        if out.samples.is_empty() {
            out.samples.push(json!({"universe": U::NAME, "idx": idx, "calls": p.calls.len(), "cfg": cfg.to_json(), "recompose_table": opts.recompose,
                "digests": {"circuit": format!("{:016x}", d.circuit), "keys": format!("{:016x}", d.keys), "traces": format!("{:016x}", d.traces), "proof": format!("{:016x}", d.proof)}}));
        }
    }
}

fn uni_for(idx: u64) -> &'static str {
    if idx % 2 == 0 { "U-KB4" } else { "U-BB4" }
}

/// Child process: natural hashing (seam off), print digests for the given indices.
pub fn child(ctx: &Ctx, spec: &str) -> i32 {
    let (a, n) = spec.split_once(',').map(|(a, n)| (a.parse::<u64>().unwrap_or(0), n.parse::<u64>().unwrap_or(0))).unwrap_or((0, 0));
    for idx in a..a + n {
        let line = if idx % 2 == 0 {
            let (p, o, c) = corpus_item::<crate::uni::Kb4>(ctx.seed, idx, ctx.tier);
            item_digest::<crate::uni::Kb4>(&p, o, &c, None, true)
        } else {
            let (p, o, c) = corpus_item::<crate::uni::Bb4>(ctx.seed, idx, ctx.tier);
            item_digest::<crate::uni::Bb4>(&p, o, &c, None, true)
        };
        match line {
            Ok(d) => println!("C18CHILD {idx} {:016x} {:016x} {:016x} {:016x}", d.circuit, d.keys, d.traces, d.proof),
            Err(e) => println!("C18CHILD {idx} ERR {}", e.split(':').next().unwrap_or("x")),
        }
    }
    0
}

pub fn replay(ctx: &Ctx, body: &serde_json::Value) -> i32 {
    let d = &body["detail"];
    if let Some(n) = d["large"].as_u64() {
        let (a, b) = (large_build(n as usize, 256, d["seed_a"].as_u64().unwrap_or(1)), large_build(n as usize, 256, d["seed_b"].as_u64().unwrap_or(2)));
        println!("replay: seed_a -> {a:?}\nreplay: seed_b -> {b:?}");
        return if a.is_ok() && b.is_ok() && a != b {
            println!("VIOLATION property={} replay={}", ctx.prop, ctx.replay.as_ref().unwrap().display());
            1
        } else {
            println!("replay did not reproduce");
            0
        };
    }
    let p: Program = match serde_json::from_value(d["program"].clone()) {
        Ok(p) => p,
        Err(e) => {
            eprintln!("harness error: bad replay file: {e}");
            return 2;
        }
    };
    let cfg = ProverCfg::from_json(&d["cfg"]);
    let opts = BuilderOpts { poseidon: false, recompose: d["recompose"].as_bool().unwrap_or(false) };
    let (ha, hb) = (d["seed_a"].as_u64().unwrap_or(1), d["seed_b"].as_u64().unwrap_or(2));
    let (a, b) = if d["universe"].as_str() == Some("U-BB4") {
        (item_digest::<crate::uni::Bb4>(&p, opts, &cfg, Some(ha), true), item_digest::<crate::uni::Bb4>(&p, opts, &cfg, Some(hb), true))
    } else {
        (item_digest::<crate::uni::Kb4>(&p, opts, &cfg, Some(ha), true), item_digest::<crate::uni::Kb4>(&p, opts, &cfg, Some(hb), true))
    };
    println!("replay: seed_a -> {a:?}\nreplay: seed_b -> {b:?}");
    match (a, b) {
        (Ok(a), Ok(b)) if a.circuit != b.circuit || a.keys != b.keys || a.traces != b.traces || a.proof != b.proof => {
            println!("VIOLATION property={} replay={}", ctx.prop, ctx.replay.as_ref().unwrap().display());
            println!("  {} differ", first_diff(&a, &b));
            1
        }
        _ => {
            println!("replay did not reproduce");
            0
        }
    }
}

/// A circuit with two Poseidon2 tables (width 16 and width 32): `n32` width-32 sponge rows with
/// one exposed output each, and a width-16 Merkle chain of `depth` rows whose last row takes its
/// index accumulator from one of those outputs (one table's reader, the other table's creator).
/// Only compiled and key-generated (the index is not the path's index, so it would not run).
fn mixed_tables_circuit(n32: usize, depth: usize, which: usize) -> Result<p3_circuit::Circuit<p3_test_utils::koala_bear_params::Challenge>, String> {
    use p3_circuit::ops::{Poseidon2Config, Poseidon2PermCall, generate_poseidon2_trace};
    use p3_field::PrimeCharacteristicRing;
    use p3_poseidon2_circuit_air::{KoalaBearD4Width16, KoalaBearD4Width32};
    type EF = p3_test_utils::koala_bear_params::Challenge;
    let mut b = p3_circuit::CircuitBuilder::<EF>::new();
    b.enable_poseidon2_perm::<KoalaBearD4Width16, _>(generate_poseidon2_trace::<EF, KoalaBearD4Width16>, p3_koala_bear::default_koalabear_poseidon2_16());
    b.enable_poseidon2_perm_width_32::<KoalaBearD4Width32, _>(generate_poseidon2_trace::<EF, KoalaBearD4Width32>, p3_koala_bear::default_koalabear_poseidon2_32());
    let (w32, w16) = (Poseidon2Config::KOALA_BEAR_D4_W32, Poseidon2Config::KOALA_BEAR_D4_W16);
    let mut exposed = Vec::new();
    for k in 0..n32 {
        let inputs = (0..w32.width_ext()).map(|i| Some(b.alloc_const(EF::from_u64(100 + (k * 16 + i) as u64), "w32_in"))).collect();
        let mut out_ctl = vec![false; w32.rate_ext()];
        out_ctl[0] = true;
        let (_, outs) = b
            .add_poseidon2_perm(&Poseidon2PermCall { config: w32, new_start: true, merkle_path: false, mmcs_bit: None, mmcs_bit2: None, inputs, out_ctl, return_all_outputs: false, mmcs_index_sum: None })
            .map_err(|e| format!("{e:?}"))?;
        exposed.push(outs[0].ok_or("no exposed output")?);
    }
    let mut last = Vec::new();
    for r in 0..depth {
        let bit = b.alloc_const(EF::from_bool(r % 2 == 1), "bit");
        let inputs = if r == 0 { (0..w16.width_ext()).map(|i| Some(b.alloc_const(EF::from_u64(7 + i as u64), "leaf"))).collect() } else { vec![None; w16.width_ext()] };
        let is_last = r + 1 == depth;
        let (_, outs) = b
            .add_poseidon2_perm(&Poseidon2PermCall { config: w16, new_start: r == 0, merkle_path: true, mmcs_bit: Some(bit), mmcs_bit2: None, inputs, out_ctl: vec![is_last, is_last], return_all_outputs: false, mmcs_index_sum: is_last.then(|| exposed[which % exposed.len()]) })
            .map_err(|e| format!("{e:?}"))?;
        last = outs;
    }
    for o in last.iter().take(2) {
        let e = b.public_input();
        b.connect(o.ok_or("no root")?, e);
    }
    b.build().map_err(|e| format!("{e:?}"))
}

/// Dependent fusion candidates: per group, L products are created first, then a sum c = r + s,
/// then the running sums y1 = m1 + c, y2 = m2 + y1, ... (or the same expressions interleaved).
/// Whether a mul+add pair may be fused depends on whether the pair before it was, so a pass that
/// visits candidates in map order has something to get wrong here.
fn cascade_circuit(rng: &mut Rng) -> Result<p3_circuit::Circuit<<crate::uni::Kb4 as CircuitUni>::EF>, String> {
    type EF = <crate::uni::Kb4 as CircuitUni>::EF;
    let mut b = p3_circuit::CircuitBuilder::<EF>::new();
    for _ in 0..rng.range(6, 16) {
        let l = rng.range(2, 4);
        let products_first = rng.chance(3, 4);
        let mut prods = Vec::new();
        if products_first {
            for _ in 0..l {
                let (p, q) = (b.public_input(), b.public_input());
                prods.push(b.mul(p, q));
            }
        }
        let (r, s2) = (b.public_input(), b.public_input());
        let mut acc = b.add(r, s2);
        for i in 0..l {
            let m = if products_first {
                prods[i]
            } else {
                let (p, q) = (b.public_input(), b.public_input());
                b.mul(p, q)
            };
            acc = b.add(m, acc);
        }
        let out = b.public_input();
        b.connect(acc, out);
    }
    b.build().map_err(|e| format!("{e:?}"))
}

/// (circuit digest, key digest) of one non-primitive-table circuit family member under one
/// hash-iteration order.
fn npo_item(family: &str, seed: u64, hash_seed: u64) -> Result<(u64, u64), String> {
    use crate::props::c08;
    use crate::uni::Kb4;
    foldhash::sim::set_seed(hash_seed);
    let mut rng = Rng::new(seed, "C18-npo", 0);
    let npo = BuilderOpts { poseidon: true, recompose: true };
    let (circuit, cfg) = match family {
        "cascade" => (cascade_circuit(&mut rng)?, ProverCfg::default()),
        "mixed" => (mixed_tables_circuit(rng.range(1, 3), rng.range(2, 4), rng.usize_below(3))?, ProverCfg { npo, poseidon_both: true, recompose_lanes: 2, ..ProverCfg::default() }),
        "a4" => {
            let shape = c08::draw_shape(&mut rng, "U-KB4-A4", Tier::Quick);
            (c08::kb4a4::build_and_run(&shape, 1)?.0, ProverCfg { npo, poseidon_w32: true, recompose_lanes: 2, ..ProverCfg::default() })
        }
        "p1" => {
            let shape = c08::draw_shape(&mut rng, "U-KB4", Tier::Quick);
            (c08::kb4p1::build_and_run(&shape, 1)?.0, ProverCfg { npo, poseidon1: true, recompose_lanes: 2, ..ProverCfg::default() })
        }
        _ => {
            let shape = c08::draw_shape(&mut rng, "U-KB4", Tier::Quick);
            (c08::kb4::build_and_run(&shape, 1)?.0, ProverCfg { npo, recompose_lanes: 2, ..ProverCfg::default() })
        }
    };
    let cd = circuit_digest::<<Kb4 as CircuitUni>::BF, <Kb4 as CircuitUni>::EF>(&circuit);
    let (_, info) = pipe::keygen::<Kb4>(&circuit, &cfg).map_err(|f| format!("keygen:{}", f.msg))?;
    Ok((cd, digest_key_info(&info)))
}

/// Scale arm: one program with more than 2^20 distinct binary sub-expressions (a chain of additions),
/// which then re-derives its first links and keeps computing with them. Bounded caches, pools with
/// eviction and "large input" fast paths only wake up at this size.
pub fn large_build(n: usize, rederive: usize, hash_seed: u64) -> Result<(u64, usize), String> {
    use p3_field::PrimeCharacteristicRing;
    type U = crate::uni::Kb4;
    type EF = <U as CircuitUni>::EF;
    foldhash::sim::set_seed(hash_seed);
    let mut b = p3_circuit::CircuitBuilder::<EF>::new();
    let x = b.public_input();
    let y = b.public_input();
    let mut acc = x;
    for _ in 0..n {
        acc = b.add(acc, y);
    }
    let out = b.public_input();
    b.connect(acc, out);
    let mut acc2 = x;
    let mut prod = b.alloc_const(EF::ONE, "one");
    for _ in 0..rederive {
        acc2 = b.add(acc2, y);
        prod = b.mul(prod, acc2);
    }
    let out2 = b.public_input();
    b.connect(prod, out2);
    let c = b.build().map_err(|e| format!("{e:?}"))?;
    Ok((crate::cdigest::circuit_digest::<<U as CircuitUni>::BF, EF>(&c), c.ops.len()))
}

pub fn main(ctx: &Ctx) -> i32 {
    if let Some(spec) = ctx.args.get("large") {
        // diagnostic / replay of the scale arm: large=<n>,<seed>
        let (n, s) = spec.split_once(',').map(|(a, b)| (a.parse::<usize>().unwrap_or(1 << 16), b.parse::<u64>().unwrap_or(1))).unwrap_or((1 << 16, 1));
        let t = std::time::Instant::now();
        println!("large_build({n}, 256, {s}) = {:?} in {:.1}s", large_build(n, 256, s), t.elapsed().as_secs_f64());
        return 0;
    }
    if let Some(spec) = ctx.args.get("child") {
        return child(ctx, spec);
    }
    if let Some(path) = &ctx.replay {
        let body: serde_json::Value = match std::fs::read_to_string(path).ok().and_then(|s| serde_json::from_str(&s).ok()) {
            Some(b) => b,
            None => {
                eprintln!("harness error: cannot read replay file");
                return 2;
            }
        };
        return replay(ctx, &body);
    }
    // seam self-test: two seeds must really permute iteration order, same seed must not
    {
        let probe = |s: u64| -> Vec<u32> {
            foldhash::sim::set_seed(s);
            let mut m = hashbrown::HashMap::new();
            for i in 0..64u32 {
                m.insert(i, ());
            }
            m.keys().copied().collect()
        };
        if probe(11) != probe(11) || probe(11) == probe(12) {
            eprintln!("harness error: hash-order seam is dead (iteration order not controlled by the seed)");
            return 2;
        }
    }
    let runs: u64 = ctx.tier.pick(2000, 20000);
    let nseeds: u64 = ctx.tier.pick(8, 32);
    let res = crate::core::pool::run_jobs(runs, |idx| {
        let mut out = RunOut::default();
        if idx % 2 == 0 {
            one_run::<crate::uni::Kb4>(ctx, idx, nseeds, &mut out);
        } else {
            one_run::<crate::uni::Bb4>(ctx, idx, nseeds, &mut out);
        }
        out
    });
    let outs = match res {
        Ok(o) => o,
        Err(e) => {
            eprintln!("harness error: {e}");
            return 2;
        }
    };
    // fresh-process arm: M children, each recomputes a sample of items with the seam OFF
    let m_children: u64 = ctx.tier.pick(3, 12);
    let sample: u64 = ctx.tier.pick(48, 256).min(runs);
    let exe = std::env::current_exe().unwrap();
    let mut child_rows: Vec<Vec<String>> = Vec::new();
    let mut handles = Vec::new();
    for _ in 0..m_children {
        let h = std::process::Command::new(&exe)
            .arg("C18")
            .arg("--tier")
            .arg(ctx.tier.name())
            .arg(format!("child=0,{sample}"))
            .env("VERIF_SEED", ctx.seed.to_string())
            .stdout(std::process::Stdio::piped())
            .stderr(std::process::Stdio::null())
            .spawn();
        match h {
            Ok(c) => handles.push(c),
            Err(e) => {
                eprintln!("harness error: cannot spawn child: {e}");
                return 2;
            }
        }
    }
    for h in handles {
        let o = match h.wait_with_output() {
            Ok(o) => o,
            Err(e) => {
                eprintln!("harness error: child failed: {e}");
                return 2;
            }
        };
        let rows: Vec<String> = String::from_utf8_lossy(&o.stdout).lines().filter(|l| l.starts_with("C18CHILD")).map(|s| s.to_string()).collect();
        if rows.len() as u64 != sample {
            eprintln!("harness error: child returned {} rows, expected {sample}", rows.len());
            return 2;
        }
        child_rows.push(rows);
    }
    let mut total = RunOut::default();
    for o in outs {
        total.merge(o);
    }
    // compare children with each other (cross-process determinism, real hasher randomness)
    let mut cross = 0u64;
    for i in 0..sample as usize {
        let first = &child_rows[0][i];
        for (c, rows) in child_rows.iter().enumerate().skip(1) {
            cross += 1;
            if &rows[i] != first {
                total.violate(
                    "process_dependent_compile".to_string(),
                    format!("item {i} ({}) differs between fresh process 0 and {c}: '{}' vs '{}'", uni_for(i as u64), first, rows[i]),
                    json!({"idx": i, "seed": ctx.seed, "how": "run `psim C18 child=<idx>,1` twice and diff"}),
                );
            }
        }
    }
    total.count_n("fresh_process_comparisons", cross);
    total.evals += cross;
    // scale arm: the large program under several iteration orders
    {
        let n = (1usize << 20) + 4096;
        let k: u64 = ctx.tier.pick(3, 8);
        let mut first: Option<(u64, (u64, usize))> = None;
        for j in 0..k {
            let hs = mix(mix(ctx.seed, 0x1a46e), j);
            match observe(|| large_build(n, 256, hs)) {
                Ok(Ok(d)) => {
                    total.evals += 1;
                    total.count("large_program_builds");
                    match first {
                        None => first = Some((hs, d)),
                        Some((h0, d0)) if d0 != d => {
                            total.violate(
                                "hash_order_dependent:large_program".to_string(),
                                format!("the {n}-addition program compiles to different circuits under two hash-iteration orders ({} ops / digest {:016x} vs {} ops / digest {:016x})", d0.1, d0.0, d.1, d.0),
                                json!({"large": n, "seed_a": h0, "seed_b": hs}),
                            );
                            break;
                        }
                        _ => {}
                    }
                }
                _ => total.count("large_program_build_failed"),
            }
        }
    }
    // non-primitive tables: library Merkle openings (arity 2 over Poseidon2 and Poseidon1, arity 4)
    // and a circuit with two Poseidon2 tables reading each other's outputs, compiled and
    // key-generated under several iteration orders
    for (fi, family) in ["a2", "a4", "p1", "mixed", "cascade"].iter().enumerate() {
        let k: u64 = ctx.tier.pick(4, 12);
        for item in 0..ctx.tier.pick(2u64, 6) {
            let seed = mix(mix(ctx.seed, 0x6e70 + fi as u64), item);
            let mut first: Option<(u64, (u64, u64))> = None;
            for j in 0..k {
                let hs = mix(mix(seed, 0x68), j);
                match observe(|| npo_item(family, seed, hs)) {
                    Ok(Ok(d)) => {
                        total.evals += 1;
                        total.count(&format!("npo_builds_{family}"));
                        match first {
                            None => first = Some((hs, d)),
                            Some((h0, d0)) if d0 != d => {
                                total.violate(
                                    format!("hash_order_dependent:npo:{family}:{}", if d0.0 != d.0 { "circuit" } else { "keys" }),
                                    format!("a {family} circuit compiles / key-generates differently under two hash-iteration orders (circuit {:016x} keys {:016x} vs circuit {:016x} keys {:016x})", d0.0, d0.1, d.0, d.1),
                                    json!({"npo_family": family, "item_seed": seed, "seed_a": h0, "seed_b": hs}),
                                );
                                break;
                            }
                            _ => {}
                        }
                    }
                    _ => total.count(&format!("npo_build_failed_{family}")),
                }
            }
        }
    }
    crate::core::report::finish(
        ctx,
        &total,
        runs,
        Spec {
            level: "exploration",
            rule: "corpus item = seeded G-prog program (10..60/120 calls; product-sum chains, commuted duplicates, connect aliasing, proper Horner chains, decompositions, optional recompose table) + packing draw; each item is compiled, key-generated (preprocessed columns, table order, degrees, preprocessed commitment), run and proven under N seeded hash-iteration orders in-process (seam on) and in M fresh processes with the seam off; all digests of an item must be equal. distinct = distinct circuit digests.",
            exhaustive: false,
            assumptions: vec![
                "the patched foldhash draws every per-hasher seed from the run's stream (self-tested at start-up)".into(),
                "rayon ('parallel' feature) is compiled out in simulated runs: thread scheduling is not controlled".into(),
            ],
            components_real: vec!["CircuitBuilder/lowerer/optimizer", "generate_preprocessed_columns", "get_airs_and_degrees_with_prep", "ProverData::from_airs_and_degrees", "CircuitRunner", "prove_all_tables"],
            components_stub: vec!["foldhash per-hasher seed source (replaced by the simulator's stream; global seed constant)"],
            not_covered: vec!["rayon scheduling", "verifier-circuit corpus items (covered through C01/C17 builds only indirectly)", "D != 4"],
            extra: json!({"hash_seeds_per_item": nseeds, "fresh_processes": m_children, "items_recomputed_in_fresh_processes": sample}),
        },
    )
}
