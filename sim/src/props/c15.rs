//! C15 — malformed proofs are rejected with an error, never a panic or a weaker circuit.
//! The transport applies *structural* faults to the serialized proof tree (sequence shortened /
//! lengthened / emptied / ragged, option flipped, count or degree changed, huge counts); the mutant
//! that still deserializes is handed to the verification-circuit builder in a crash-isolated
//! worker process (memory-limited, so a giant allocation is an observed abort).
//! Oracle: (1) no panic, no abort; (2) `Err`, or `Ok` and then the built circuit's verdict on the
//! mutant's data equals the native verdict on the mutant.

use std::io::{BufRead, BufReader, Write};

use serde_json::{Value, json};

use crate::core::prng::{Rng, mix};
use crate::core::report::{Ctx, RunOut, Spec, Tier};
use crate::props::c01::{ShapeSpec, draw_shape};
use crate::rec::{CircuitVerdict, RecUni};
use crate::tree::{self, Path, Seg};

#[derive(Clone, Debug)]
pub struct SFault {
    pub kind: &'static str,
    pub path: Path,
}

const SEQ_KINDS: [&str; 5] = ["seq_drop_last", "seq_drop_first", "seq_dup_last", "seq_empty", "seq_ragged"];
const META_KINDS: [&str; 4] = ["meta_plus1", "meta_minus1", "meta_zero", "meta_huge"];

/// Keys that are `null` somewhere in this tree: the optional parts.
fn optional_keys(t: &Value) -> Vec<String> {
    let mut ks: Vec<String> = tree::null_nodes(t)
        .iter()
        .filter_map(|p| match p.last() {
            Some(Seg::Key(k)) => Some(k.clone()),
            _ => None,
        })
        .collect();
    // optional parts that happen to be present everywhere in this tree (e.g. the next-row openings
    // of an AIR that reads the next row) are optional all the same; a key that is not an Option in
    // the proof type simply fails to deserialize as null and is dropped at the transport
    for k in ["trace_next", "preprocessed_local", "preprocessed_next", "random", "permutation", "preprocessed"] {
        if !all_paths_with_key(t, k).is_empty() {
            ks.push(k.to_string());
        }
    }
    ks.sort();
    ks.dedup();
    ks
}

fn all_paths_with_key(t: &Value, key: &str) -> Vec<Path> {
    fn rec(v: &Value, key: &str, cur: &mut Path, out: &mut Vec<Path>) {
        match v {
            Value::Array(a) => {
                for (i, x) in a.iter().enumerate() {
                    cur.push(Seg::Idx(i));
                    rec(x, key, cur, out);
                    cur.pop();
                }
            }
            Value::Object(m) => {
                for (k, x) in m {
                    cur.push(Seg::Key(k.clone()));
                    if k == key {
                        out.push(cur.clone());
                    }
                    rec(x, key, cur, out);
                    cur.pop();
                }
            }
            _ => {}
        }
    }
    let mut out = Vec::new();
    rec(t, key, &mut Vec::new(), &mut out);
    out
}

pub fn enumerate_faults(t: &Value) -> Vec<SFault> {
    let mut v = Vec::new();
    for p in tree::seq_nodes(t) {
        for k in SEQ_KINDS {
            v.push(SFault { kind: k, path: p.clone() });
        }
    }
    for key in optional_keys(t) {
        for p in all_paths_with_key(t, &key) {
            v.push(SFault { kind: "opt_flip", path: p });
        }
    }
    for p in tree::numeric_leaves(t) {
        if tree::is_meta_leaf(&p) {
            for k in META_KINDS {
                v.push(SFault { kind: k, path: p.clone() });
            }
        }
    }
    v
}

/// Apply; false if the fault does not change the tree.
pub fn apply(t: &mut Value, f: &SFault) -> bool {
    match f.kind {
        "opt_flip" => {
            let is_null = tree::get(t, &f.path).map(|v| v.is_null()).unwrap_or(false);
            if is_null {
                // None -> Some: clone a structurally compatible sibling (first non-null value in the same object)
                let parent = &f.path[..f.path.len() - 1];
                let donor = tree::get(t, parent).and_then(|p| p.as_object()).and_then(|m| m.values().find(|v| v.is_array() && !v.as_array().unwrap().is_empty()).cloned());
                match donor {
                    Some(d) => {
                        *tree::get_mut(t, &f.path).unwrap() = d;
                        true
                    }
                    None => false,
                }
            } else {
                match tree::get_mut(t, &f.path) {
                    Some(v) => {
                        *v = Value::Null;
                        true
                    }
                    None => false,
                }
            }
        }
        k if k.starts_with("seq_") => {
            let Some(Value::Array(a)) = tree::get_mut(t, &f.path) else { return false };
            match k {
                "seq_drop_last" => a.pop().is_some(),
                "seq_drop_first" => {
                    if a.is_empty() {
                        false
                    } else {
                        a.remove(0);
                        true
                    }
                }
                "seq_dup_last" => match a.last().cloned() {
                    Some(x) => {
                        a.push(x);
                        true
                    }
                    None => false,
                },
                "seq_empty" => {
                    if a.is_empty() {
                        false
                    } else {
                        a.clear();
                        true
                    }
                }
                "seq_ragged" => match a.first_mut() {
                    Some(Value::Array(inner)) if a_len_gt1(inner) => inner.pop().is_some(),
                    _ => false,
                },
                _ => false,
            }
        }
        k if k.starts_with("meta_") => {
            let Some(old) = tree::get(t, &f.path).and_then(|v| v.as_u64()) else { return false };
            let new = match k {
                "meta_plus1" => old + 1,
                "meta_minus1" => {
                    if old == 0 {
                        return false;
                    }
                    old - 1
                }
                "meta_zero" => {
                    if old == 0 {
                        return false;
                    }
                    0
                }
                _ => 1u64 << 62,
            };
            *tree::get_mut(t, &f.path).unwrap() = json!(new);
            true
        }
        _ => false,
    }
}
fn a_len_gt1(v: &[Value]) -> bool {
    !v.is_empty()
}

/// Error-class slug of a native verifier error (first alphabetic words, no numbers).
fn native_slug(e: &str) -> String {
    e.split(|c: char| !c.is_alphabetic()).filter(|w| w.len() > 2).take(3).collect::<Vec<_>>().join("")
}

fn first_word(e: &str) -> String {
    e.split(|c: char| !c.is_alphanumeric()).find(|x| !x.is_empty()).unwrap_or("x").to_string()
}

/// One structural-fault case. Returns (outcome class, optional violation (key, clause)).
pub fn run_case<R: RecUni>(spec: &ShapeSpec, proof_tree: &Value, honest_common: Option<&R::Common>, pis: &[R::Val], f: &SFault) -> (String, Option<(String, String)>) {
    let class = tree::path_class(&f.path);
    let mut t = proof_tree.clone();
    if !apply(&mut t, f) {
        return ("not_fired".into(), None);
    }
    let s = &spec.fri;
    if spec.kind == "uni" {
        let p2: R::UniProof = match serde_json::from_value(t) {
            Ok(p) => p,
            Err(_) => return ("rejected_at_transport".into(), None),
        };
        match R::uni_build(s, &p2, pis.len()) {
            Err(CircuitVerdict::BuildErr(e)) => (format!("build_err_{}", first_word(&e)), None),
            Err(v) => (
                "build_panic".into(),
                Some((format!("panic:uni:{}:{class}", f.kind), format!("builder panicked on {} at {}: {}", f.kind, tree::path_str(&f.path), v.msg().chars().take(200).collect::<String>()))),
            ),
            Ok(b) => {
                let c = R::uni_run(&b, &p2, pis).0;
                let n = R::uni_native(s, &p2, pis);
                if c.panicked() {
                    return ("run_panic".into(), Some((format!("panic_run:uni:{}:{class}", f.kind), format!("packing/running the built circuit panicked on {} at {}: {}", f.kind, tree::path_str(&f.path), c.msg().chars().take(200).collect::<String>()))));
                }
                if let Err(e) = &n {
                    if e.contains("InvalidProofShape") {
                        // the native verifier itself classifies the mutant as structurally malformed:
                        // the builder must have refused it
                        return (
                            "builder_accepts_malformed".into(),
                            Some((format!("builder_accepts_malformed:uni:{}:{class}", f.kind), format!("{} at {}: native verifier rejects the proof as malformed ({}), the circuit builder returned Ok", f.kind, tree::path_str(&f.path), e.chars().take(160).collect::<String>()))),
                        );
                    }
                }
                if c.accepts() && n.is_err() {
                    (
                        "weaker_circuit".into(),
                        Some((format!("weaker:uni:{}:{class}", f.kind), format!("{} at {}: builder returned Ok, circuit accepts, native rejects ({})", f.kind, tree::path_str(&f.path), n.err().unwrap_or_default().chars().take(160).collect::<String>()))),
                    )
                } else {
                    (format!("built_ok_circuit_{}_native_{}", c.class(), match &n { Ok(()) => "accept".to_string(), Err(e) => format!("reject_{}", native_slug(e)) }), None)
                }
            }
        }
    } else {
        let p2: R::BatchProof = match serde_json::from_value(t) {
            Ok(p) => p,
            Err(_) => return ("rejected_at_transport".into(), None),
        };
        let common2 = R::common_for(&p2, honest_common.unwrap());
        match R::batch_build(s, &p2, &common2) {
            Err(CircuitVerdict::BuildErr(e)) => (format!("build_err_{}", first_word(&e)), None),
            Err(v) => (
                "build_panic".into(),
                Some((format!("panic:batch:{}:{class}", f.kind), format!("builder panicked on {} at {}: {}", f.kind, tree::path_str(&f.path), v.msg().chars().take(200).collect::<String>()))),
            ),
            Ok(b) => {
                let c = R::batch_run(&b, &p2, &common2).0;
                let n = R::batch_native(s, &p2, &common2);
                if c.panicked() {
                    return ("run_panic".into(), Some((format!("panic_run:batch:{}:{class}", f.kind), format!("packing/running the built circuit panicked on {} at {}: {}", f.kind, tree::path_str(&f.path), c.msg().chars().take(200).collect::<String>()))));
                }
                if let Err(e) = &n {
                    if e.contains("InvalidProofShape") {
                        // the native verifier itself classifies the mutant as structurally malformed:
                        // the builder must have refused it
                        return (
                            "builder_accepts_malformed".into(),
                            Some((format!("builder_accepts_malformed:batch:{}:{class}", f.kind), format!("{} at {}: native verifier rejects the proof as malformed ({}), the circuit builder returned Ok", f.kind, tree::path_str(&f.path), e.chars().take(160).collect::<String>()))),
                        );
                    }
                }
                if c.accepts() && n.is_err() {
                    (
                        "weaker_circuit".into(),
                        Some((format!("weaker:batch:{}:{class}", f.kind), format!("{} at {}: builder returned Ok, circuit accepts, native rejects ({})", f.kind, tree::path_str(&f.path), n.err().unwrap_or_default().chars().take(160).collect::<String>()))),
                    )
                } else {
                    (format!("built_ok_circuit_{}_native_{}", c.class(), match &n { Ok(()) => "accept".to_string(), Err(e) => format!("reject_{}", native_slug(e)) }), None)
                }
            }
        }
    }
}

fn base_runs(tier: Tier) -> u64 {
    tier.pick(12, 96)
}

/// Universe of run `idx`: the ordinary rotation, then C01's systematic custom-AIR sweep.
fn universe_for(idx: u64, tier: Tier) -> &'static str {
    if idx >= base_runs(tier) {
        if (idx - base_runs(tier)) % 2 == 0 { "U-KB4-CUSTOM" } else { "U-KB4-CUSTOM-ZK" }
    } else {
        crate::rec::universe_of(idx)
    }
}

fn shape_for(seed: u64, idx: u64, tier: Tier) -> ShapeSpec {
    let mut rng = Rng::new(seed, "C15", idx);
    let mut spec = if idx >= base_runs(tier) {
        crate::props::c01::sweep_shape(&mut rng, tier, (idx - base_runs(tier)) as usize).1
    } else {
        crate::with_rec_universe!(crate::rec::universe_of(idx), U, draw_shape::<U>(&mut rng, tier, None))
    };
    let sweep_log_n = (idx >= base_runs(tier)).then_some(spec.log_n);
    // keep structural enumeration tractable: few queries, small traces
    spec.fri.num_queries = spec.fri.num_queries.min(2);
    spec.log_n = spec.log_n.min(4).max(spec.fri.log_final_poly_len + 1);
    if let Some(l) = sweep_log_n {
        // the sweep selects the uni-STARK AIR kind through the height
        spec.log_n = l;
    }
    spec
}

/// Worker process: enumerate cases `from..` for shape `idx`, one protocol line before and after each.
fn worker<R: RecUni>(ctx: &Ctx, idx: u64, from: usize, only: Option<usize>) -> i32 {
    foldhash::sim::set_seed(mix(ctx.seed, idx));
    let spec = shape_for(ctx.seed, idx, ctx.tier);
    let stdout = std::io::stdout();
    let say = |s: String| {
        let mut o = stdout.lock();
        let _ = writeln!(o, "{s}");
        let _ = o.flush();
    };
    let (tree0, common, pis): (Value, Option<R::Common>, Vec<R::Val>) = if spec.kind == "uni" {
        match crate::core::pool::observe(|| R::uni_prove_fib(&spec.fri, spec.log_n)) {
            Ok((p, pis)) => (serde_json::to_value(&p).unwrap(), None, pis),
            Err(_) => {
                say("SKIP honest_prover_panicked".into());
                return 0;
            }
        }
    } else {
        match R::batch_prove(&spec.fri, spec.program.as_ref().unwrap(), spec.public_lanes, spec.alu_lanes) {
            Ok((p, c, _)) => (serde_json::to_value(&p).unwrap(), Some(c), vec![]),
            Err(_) => {
                say("SKIP honest_batch_prover_failed".into());
                return 0;
            }
        }
    };
    let faults = enumerate_faults(&tree0);
    say(format!("TOTAL {}", faults.len()));
    for (i, f) in faults.iter().enumerate() {
        if i < from {
            continue;
        }
        if let Some(o) = only {
            if i != o {
                continue;
            }
        }
        say(format!("CASE {i} {} {}", f.kind, tree::path_str(&f.path)));
        let (class, viol) = run_case::<R>(&spec, &tree0, common.as_ref(), &pis, f);
        match viol {
            Some((k, c)) => say(format!("DONE {i} {class} VIOL {k}\t{}", c.replace('\n', " "))),
            None => say(format!("DONE {i} {class}")),
        }
    }
    say("END".into());
    0
}

/// Parent: drive a crash-isolated worker for shape idx; a worker death is attributed to the last CASE.
fn drive(ctx: &Ctx, idx: u64, out: &mut RunOut) {
    let exe = std::env::current_exe().unwrap();
    let mem_kb: u64 = 8 * 1024 * 1024;
    let spec = shape_for(ctx.seed, idx, ctx.tier);
    let mut from = 0usize;
    let mut total = None;
    let mut respawns = 0;
    loop {
        let cmd = format!("ulimit -v {mem_kb}; exec '{}' C15 --tier {} worker={idx} from={from}", exe.display(), ctx.tier.name());
        let mut child = match std::process::Command::new("sh")
            .arg("-c")
            .arg(&cmd)
            .env("VERIF_SEED", ctx.seed.to_string())
            .stdout(std::process::Stdio::piped())
            .stderr(std::process::Stdio::null())
            .spawn()
        {
            Ok(c) => c,
            Err(_) => {
                out.count("harness_spawn_failed");
                return;
            }
        };
        let rd = BufReader::new(child.stdout.take().unwrap());
        let mut open_case: Option<(usize, String)> = None;
        let mut ended = false;
        for line in rd.lines().map_while(Result::ok) {
            if let Some(r) = line.strip_prefix("TOTAL ") {
                total = r.trim().parse::<usize>().ok();
            } else if let Some(r) = line.strip_prefix("CASE ") {
                let mut it = r.splitn(2, ' ');
                let i = it.next().and_then(|x| x.parse::<usize>().ok()).unwrap_or(0);
                open_case = Some((i, it.next().unwrap_or("").to_string()));
            } else if let Some(r) = line.strip_prefix("DONE ") {
                let mut it = r.splitn(3, ' ');
                let i = it.next().and_then(|x| x.parse::<usize>().ok()).unwrap_or(0);
                let class = it.next().unwrap_or("");
                let rest = it.next().unwrap_or("");
                out.evals += 1;
                out.steps += 1;
                out.count(&format!("outcome_{class}"));
                if let Some((_, desc)) = &open_case {
                    let kind = desc.split(' ').next().unwrap_or("");
                    out.count(&format!("fired_{kind}"));
                    if class != "not_fired" {
                        let pcls = class_of_desc(desc);
                        out.distinct.insert(crate::core::prng::fnv64(format!("{}:{kind}:{pcls}", spec.kind).as_bytes()));
                    }
                }
                if let Some(v) = rest.strip_prefix("VIOL ") {
                    let (k, c) = v.split_once('\t').unwrap_or((v, ""));
                    out.violate(k.to_string(), c.to_string(), json!({"idx": idx, "case": i, "shape": spec, "fault": open_case.as_ref().map(|x| x.1.clone())}));
                }
                open_case = None;
                from = i + 1;
            } else if line.starts_with("SKIP") {
                out.count(&format!("shape_skipped_{}", line.trim_start_matches("SKIP ").trim()));
                ended = true;
            } else if line == "END" {
                ended = true;
            }
        }
        let status = child.wait().ok();
        if ended {
            break;
        }
        // the worker died: attribute to the open case
        match open_case {
            Some((i, desc)) => {
                let kind = desc.split(' ').next().unwrap_or("").to_string();
                let pcls = class_of_desc(&desc);
                out.evals += 1;
                out.count("outcome_worker_aborted");
                out.violate(
                    format!("abort:{}:{kind}:{pcls}", spec.kind),
                    format!("worker process died ({status:?}, memory limit {mem_kb} KiB) while building the circuit for {desc}: abort or unbounded allocation instead of an error"),
                    json!({"idx": idx, "case": i, "shape": spec, "fault": desc}),
                );
                from = i + 1;
            }
            None => {
                out.count("worker_died_outside_case");
                break;
            }
        }
        respawns += 1;
        if respawns > 400 || total.is_some_and(|t| from >= t) {
            break;
        }
    }
}

fn class_of_desc(desc: &str) -> String {
    // desc = "<kind> <path>" ; erase indices
    let p = desc.split(' ').nth(1).unwrap_or("");
    let mut s = String::new();
    let mut in_idx = false;
    for ch in p.chars() {
        match ch {
            '[' => {
                in_idx = true;
                s.push_str("[]");
            }
            ']' => in_idx = false,
            c if !in_idx => s.push(c),
            _ => {}
        }
    }
    s
}

pub fn main(ctx: &Ctx) -> i32 {
    if let Some(w) = ctx.args.get("worker") {
        let idx: u64 = w.parse().unwrap_or(0);
        let from: usize = ctx.args.get("from").and_then(|x| x.parse().ok()).unwrap_or(0);
        let only: Option<usize> = ctx.args.get("only").and_then(|x| x.parse().ok());
        return crate::with_rec_universe!(universe_for(idx, ctx.tier), U, worker::<U>(ctx, idx, from, only));
    }
    if let Some(path) = &ctx.replay {
        let body: Value = match std::fs::read_to_string(path).ok().and_then(|s| serde_json::from_str(&s).ok()) {
            Some(b) => b,
            None => {
                eprintln!("harness error: cannot read replay file");
                return 2;
            }
        };
        // replay = re-run exactly that case of that shape in a fresh crash-isolated worker
        let idx = body["detail"]["idx"].as_u64().unwrap_or(0);
        let case = body["detail"]["case"].as_u64().unwrap_or(0);
        let seed = body["seed"].as_u64().unwrap_or(ctx.seed);
        let tier = body["tier"].as_str().unwrap_or("quick").to_string();
        let exe = std::env::current_exe().unwrap();
        let cmd = format!("ulimit -v {}; exec '{}' C15 --tier {tier} worker={idx} only={case}", 8 * 1024 * 1024, exe.display());
        let o = std::process::Command::new("sh").arg("-c").arg(&cmd).env("VERIF_SEED", seed.to_string()).stderr(std::process::Stdio::null()).output();
        let text = o.as_ref().map(|o| String::from_utf8_lossy(&o.stdout).to_string()).unwrap_or_default();
        let died = !text.contains("END");
        let viol = text.lines().any(|l| l.contains(" VIOL "));
        for l in text.lines().filter(|l| l.starts_with("CASE") || l.starts_with("DONE")) {
            println!("  {l}");
        }
        if viol || died {
            println!("VIOLATION property={} replay={}", ctx.prop, path.display());
            if died {
                println!("  worker died: {:?}", o.map(|o| o.status));
            }
            return 1;
        }
        println!("replay did not reproduce");
        return 0;
    }
    let runs: u64 = base_runs(ctx.tier) + crate::props::c01::SWEEP_RUNS;
    let res = crate::core::pool::run_jobs(runs, |idx| {
        let mut out = RunOut::default();
        drive(ctx, idx, &mut out);
        let mut d = crate::core::prng::Digest::new();
        d.u64(out.evals);
        for (k, v) in &out.counters {
            d.str(k);
            d.u64(*v);
        }
        out.digest = d.finish();
        if out.samples.is_empty() {
            let s = shape_for(ctx.seed, idx, ctx.tier);
            out.samples.push(json!({"idx": idx, "shape": {"universe": s.universe, "kind": s.kind, "fri": s.fri, "log_n": s.log_n}, "cases": out.evals}));
        }
        out
    });
    let outs = match res {
        Ok(o) => o,
        Err(e) => {
            eprintln!("harness error: {e}");
            return 2;
        }
    };
    let mut total = RunOut::default();
    for o in outs {
        total.merge(o);
    }
    crate::core::report::finish(
        ctx,
        &total,
        runs,
        Spec {
            level: "fault_enumeration",
            rule: "one run = one proof shape from C01's swarm (capped at 2 queries / 2^4 rows); every sequence node of the serialized proof gets seq_drop_last / seq_drop_first / seq_dup_last / seq_empty / seq_ragged, every optional part is flipped (None->Some by cloning a sibling, Some->None), every usize leaf gets +1 / -1 / 0 / 2^62; each mutant that still deserializes is handed to verify_p3_{uni,batch}_proof_circuit in a crash-isolated, memory-limited worker process; if the builder returns Ok the circuit is run on the mutant and compared with the native verdict on the mutant. distinct = distinct (kind, fault kind, node class) triples that fired.",
            exhaustive: true,
            assumptions: vec![
                "exhaustive over single structural faults of each sampled shape; shapes are sampled".into(),
                "worker memory limit 8 GiB (ulimit -v): a larger allocation is observed as an abort".into(),
            ],
            components_real: vec!["verify_p3_uni_proof_circuit", "verify_p3_batch_proof_circuit", "StarkVerifierInputsBuilder::allocate", "pack_values", "native verifiers"],
            components_stub: vec!["transport = serde_json tree"],
            not_covered: vec!["pairs of structural faults", "build_next_layer_circuit entry point (covered through C17 histories)", "FriVerifierParams out of range"],
            extra: json!({}),
        },
    )
}
