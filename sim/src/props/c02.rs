//! C02 — compilation preserves the value of every expression and the run outcome.
//! Builder-call histories vs the reference interpreter, each compiled under several hash seeds.

use p3_circuit::CircuitBuilder;
use serde_json::json;

use crate::cdigest::circuit_digest;
use crate::core::pool::observe;
use crate::core::prng::{Rng, mix};
use crate::core::report::{Ctx, RunOut, Spec};
use crate::gprog::{self, GenCfg, Program, f_from_u64s, f_to_u64s};
use crate::uni::{BuilderOpts, CircuitUni, ProverCfg, verifier_node};

/// Outcome of compiling + honestly running one program under one hash seed.
pub struct Honest<U: CircuitUni> {
    pub build_err: Option<String>,
    pub circuit: Option<p3_circuit::Circuit<U::EF>>,
    pub run: Option<Result<p3_circuit::tables::Traces<U::EF>, String>>,
}

pub fn inputs_of<U: CircuitUni>(p: &Program) -> (Vec<U::EF>, Vec<U::EF>) {
    (
        p.publics.iter().map(|v| f_from_u64s::<U::BF, U::EF>(v)).collect(),
        p.privates.iter().map(|v| f_from_u64s::<U::BF, U::EF>(v)).collect(),
    )
}

pub fn compile_and_run<U: CircuitUni>(p: &Program, opts: BuilderOpts, hash_seed: u64) -> Honest<U> {
    foldhash::sim::set_seed(hash_seed);
    let mut b: CircuitBuilder<U::EF> = U::builder(opts);
    let built = match observe(|| gprog::replay_into::<U::BF, U::EF>(p, &mut b, true)) {
        Ok(x) => x,
        Err(pm) => return Honest { build_err: Some(format!("panic in builder call: {pm}")), circuit: None, run: None },
    };
    if !built.build_errors.is_empty() {
        return Honest { build_err: Some(built.build_errors.join(";")), circuit: None, run: None };
    }
    let circuit = match observe(|| b.build()) {
        Ok(Ok(c)) => c,
        Ok(Err(e)) => return Honest { build_err: Some(format!("{e:?}")), circuit: None, run: None },
        Err(pm) => return Honest { build_err: Some(format!("panic in build: {pm}")), circuit: None, run: None },
    };
    let (pubs, privs) = inputs_of::<U>(p);
    let run = observe(|| {
        let mut r = circuit.runner();
        r.set_public_inputs(&pubs).map_err(|e| format!("{e:?}"))?;
        r.set_private_inputs(&privs).map_err(|e| format!("{e:?}"))?;
        r.run().map_err(|e| format!("{e:?}"))
    });
    let run = match run {
        Ok(r) => r,
        Err(pm) => Err(format!("panic in run: {pm}")),
    };
    Honest { build_err: None, circuit: Some(circuit), run: Some(run) }
}

/// Clause check for one program; returns Some((key, clause)) on violation.
pub fn check_program<U: CircuitUni>(
    p: &Program,
    opts: BuilderOpts,
    hash_seeds: &[u64],
    prove_on_unsat_ok: bool,
    out: &mut RunOut,
) -> Option<(String, String)> {
    let r = gprog::ref_eval::<U::BF, U::EF>(p);
    if r.precond_violated {
        out.count("precondition_violated_skipped");
        return None;
    }
    let mut digests = Vec::new();
    for &h in hash_seeds {
        let hon = compile_and_run::<U>(p, opts, h);
        out.steps += p.calls.len() as u64;
        if let Some(e) = hon.build_err {
            out.count("builder_rejected");
            if e.starts_with("panic") {
                out.count("builder_panicked");
            }
            return None;
        }
        let circuit = hon.circuit.unwrap();
        digests.push(circuit_digest::<U::BF, U::EF>(&circuit));
        match hon.run.unwrap() {
            Ok(traces) => {
                if r.sat {
                    out.count("sat_run_ok");
                    for (i, v) in r.vals.iter().enumerate() {
                        if let (Some(v), Some(got)) = (v, traces.probe(&format!("v{i}"))) {
                            if got != v {
                                let kind = call_of_slot(p, &r.out_base, i);
                                return Some((
                                    format!("wrong_value:{kind}"),
                                    format!(
                                        "clause (i): slot v{i} ({kind}) = {:?}, expression denotes {:?} (hash_seed {h})",
                                        f_to_u64s::<U::BF, U::EF>(got),
                                        f_to_u64s::<U::BF, U::EF>(v)
                                    ),
                                ));
                            }
                        }
                    }
                } else if r.div_zero {
                    out.count("divzero_run_ok");
                    // the relation rhs*q = lhs is unsatisfiable only when lhs != 0; not decided here
                } else {
                    out.count("unsat_run_ok");
                    // Run succeeded on a violating input: acceptable only if the trace cannot be proven.
                    if prove_on_unsat_ok {
                        let cfg = ProverCfg { npo: opts, ..ProverCfg::default() };
                        let accepted = observe(|| -> Result<(), String> {
                            let keys = U::keygen(&circuit, &cfg)?;
                            let info = U::key_info(&keys);
                            let proof = U::prove(&keys, &traces, &cfg, None)?;
                            verifier_node::<U>(&proof, &cfg, &info.commitment)
                        });
                        if let Ok(Ok(())) = accepted {
                            return Some((
                                "unsat_input_accepted".to_string(),
                                format!(
                                    "clause (ii): source program violated ({}), run Ok, proof accepted (hash_seed {h})",
                                    r.first_violation.clone().unwrap_or_default()
                                ),
                            ));
                        }
                        out.count("unsat_run_ok_but_unprovable");
                    }
                }
            }
            Err(e) => {
                if r.sat {
                    let kind = err_kind(&e);
                    return Some((
                        format!("sat_run_failed:{kind}"),
                        format!("clause (i): all relations hold and divisors non-zero, run failed: {e} (hash_seed {h})"),
                    ));
                } else {
                    out.count("unsat_run_err");
                }
            }
        }
    }
    if digests.windows(2).any(|w| w[0] != w[1]) {
        return Some((
            "hash_order_dependent_compile".to_string(),
            format!("circuit digest differs across hash seeds {hash_seeds:?}: {digests:x?}"),
        ));
    }
    None
}

fn err_kind(e: &str) -> String {
    e.split(|c: char| !c.is_alphanumeric()).next().unwrap_or("err").to_string()
}

pub fn call_of_slot(p: &Program, out_base: &[usize], slot: usize) -> &'static str {
    let mut k = "?";
    for (ci, b) in out_base.iter().enumerate() {
        if *b <= slot && slot < *b + p.calls[ci].n_out(usize::MAX / 2).min(1_000_000) {
            k = p.calls[ci].kind();
        }
        if *b > slot {
            break;
        }
    }
    // n_out needs D for DecomposeExt; fall back to the last call whose base <= slot
    if k == "?" {
        for (ci, b) in out_base.iter().enumerate() {
            if *b <= slot {
                k = p.calls[ci].kind();
            }
        }
    }
    k
}

pub fn one_run<U: CircuitUni>(ctx: &Ctx, idx: u64, out: &mut RunOut) {
    let mut rng = Rng::new(ctx.seed, "C02", idx);
    let opts = BuilderOpts::default();
    let cfg = GenCfg { max_calls: ctx.tier.pick(40, 70), ..GenCfg::default() };
    let nprog = 20;
    for k in 0..nprog {
        let p = gprog::generate::<U::BF, U::EF>(&mut rng, &cfg);
        let hs: Vec<u64> = (0..3).map(|j| mix(mix(ctx.seed, idx), k * 16 + j)).collect();
        out.evals += 1;
        out.distinct.insert(gprog::kinds_signature(&p));
        if out.samples.len() < 2 && k == 0 {
            out.samples.push(json!({"universe": U::NAME, "program": p, "hash_seeds": hs}));
        }
        let mut v = check_program::<U>(&p, opts, &hs, true, out);
        // violating variant
        if v.is_none() {
            let mut p2 = p.clone();
            // violate the source: change an input, or (one case in four) a constant
            let perturbed = if rng.chance(1, 4) { gprog::perturb_const::<U::BF, U::EF>(&mut p2, &mut rng).is_some() } else { gprog::perturb_input::<U::BF, U::EF>(&mut p2, &mut rng).is_some() };
            if perturbed {
                out.evals += 1;
                out.count("perturbed_inputs");
                if let Some(x) = check_program::<U>(&p2, opts, &hs[..1], true, out) {
                    report::<U>(ctx, &p2, opts, &hs[..1], x, out);
                }
            }
        }
        if let Some(x) = v.take() {
            report::<U>(ctx, &p, opts, &hs, x, out);
        }
    }
}

fn report<U: CircuitUni>(
    _ctx: &Ctx,
    p: &Program,
    opts: BuilderOpts,
    hs: &[u64],
    (key, clause): (String, String),
    out: &mut RunOut,
) {
    // minimise: drop calls while the same key still fails
    let still = |q: &Program| -> bool {
        let mut tmp = RunOut::default();
        matches!(check_program::<U>(q, opts, hs, true, &mut tmp), Some((k, _)) if k == key)
    };
    let m = gprog::minimise(p, U::D, &still);
    let mut tmp = RunOut::default();
    let clause_min = check_program::<U>(&m, opts, hs, true, &mut tmp).map(|x| x.1).unwrap_or(clause);
    out.violate(
        key,
        clause_min,
        json!({"universe": U::NAME, "program": m, "hash_seeds": hs, "original_calls": p.calls.len()}),
    );
}

pub fn dump<U: CircuitUni>(p: &Program, h: u64) {
    let hon = compile_and_run::<U>(p, BuilderOpts::default(), h);
    if let Some(e) = &hon.build_err {
        println!("build error: {e}");
        return;
    }
    let c = hon.circuit.unwrap();
    println!("witness_count={} public_rows={:?} private_rows={:?}", c.witness_count, c.public_rows, c.private_input_rows);
    for (i, op) in c.ops.iter().enumerate() {
        match op {
            p3_circuit::Op::Const { out, val } => println!("{i}: Const w{} = {:?}", out.0, f_to_u64s::<U::BF, U::EF>(val)),
            p3_circuit::Op::Public { out, public_pos } => println!("{i}: Public w{} pos {public_pos}", out.0),
            p3_circuit::Op::Alu { kind, a, b, c, out, intermediate_out } => println!(
                "{i}: {kind:?} a=w{} b=w{} c={:?} out=w{} io={:?}", a.0, b.0, c.map(|x| x.0), out.0, intermediate_out.map(|x| x.0)),
            p3_circuit::Op::Hint { inputs, outputs, .. } => println!("{i}: Hint in={inputs:?} out={outputs:?}"),
            p3_circuit::Op::NonPrimitiveOpWithExecutor { inputs, outputs, executor, .. } => println!("{i}: Npo {:?} in={inputs:?} out={outputs:?}", executor.op_type()),
        }
    }
    let mut e2w: Vec<(u32, u32)> = c.expr_to_widx.iter().map(|(e, w)| (e.0, w.0)).collect();
    e2w.sort();
    println!("expr_to_widx={e2w:?}");
    println!("rewrite={:?}", c.witness_rewrite);
    let mut t: Vec<_> = c.tag_to_witness.iter().collect();
    t.sort();
    println!("tags={t:?}");
    match hon.run.unwrap() {
        Ok(_) => println!("run: Ok"),
        Err(e) => println!("run: Err {e}"),
    }
    let r = gprog::ref_eval::<U::BF, U::EF>(p);
    println!("ref: sat={} first_violation={:?}", r.sat, r.first_violation);
}

pub fn replay(ctx: &Ctx, body: &serde_json::Value) -> i32 {
    let d = &body["detail"];
    let p: Program = match serde_json::from_value(d["program"].clone()) {
        Ok(p) => p,
        Err(e) => {
            eprintln!("harness error: bad replay file: {e}");
            return 2;
        }
    };
    let hs: Vec<u64> = d["hash_seeds"].as_array().map(|a| a.iter().filter_map(|x| x.as_u64()).collect()).unwrap_or_default();
    let uni = d["universe"].as_str().unwrap_or("U-KB4");
    if ctx.args.contains_key("dump") {
        crate::with_uni!(uni, U, dump::<U>(&p, hs[0]));
    }
    let mut tmp = RunOut::default();
    let r = crate::with_uni!(uni, U, check_program::<U>(&p, BuilderOpts::default(), &hs, true, &mut tmp));
    match r {
        Some((k, c)) => {
            println!("VIOLATION property={} replay={}", ctx.prop, ctx.replay.as_ref().unwrap().display());
            println!("  key={k} clause={c}");
            if Some(k.as_str()) == body["key"].as_str() { 1 } else { 1 }
        }
        None => {
            println!("replay did not reproduce a violation");
            0
        }
    }
}

pub fn main(ctx: &Ctx) -> i32 {
    if let Some(path) = &ctx.replay {
        let body: serde_json::Value = match std::fs::read_to_string(path).ok().and_then(|s| serde_json::from_str(&s).ok()) {
            Some(b) => b,
            None => {
                eprintln!("harness error: cannot read replay file");
                return 2;
            }
        };
        return replay(ctx, &body);
    }
    let runs: u64 = ctx.tier.pick(3000, 100000);
    let res = crate::core::pool::run_jobs(runs, |idx| {
        let mut out = RunOut::default();
        crate::with_uni!(crate::uni::uni_of(idx), U, one_run::<U>(ctx, idx, &mut out));
        let mut d = crate::core::prng::Digest::new();
        d.u64(out.evals);
        for (k, v) in &out.counters {
            d.str(k);
            d.u64(*v);
        }
        out.digest = d.finish();
        out
    });
    let outs = match res {
        Ok(o) => o,
        Err(e) => {
            eprintln!("harness error: {e}");
            return 2;
        }
    };
    let mut total = RunOut::default();
    for o in outs {
        total.merge(o);
    }
    crate::core::report::finish(
        ctx,
        &total,
        runs,
        Spec {
            level: "exploration",
            rule: "seeded builder-call histories (G-prog: consts, public/private inputs, add/sub/mul/div, mul_add, horner steps, bool checks, select, connect/assert_zero shapes, mul_many, inner_product, exp_pow2, bit and coefficient decompositions, ALU recomposition) replayed into the real CircuitBuilder (seven universes: binomial D2/D4/D5/D8, quintic, base field) under 3 hash-order seeds each and into the reference interpreter; one perturbed variant per program (an input changed, or one constant changed). distinct = distinct call-kind sequences.",
            exhaustive: false,
            assumptions: vec![
                "reference interpreter (gprog::ref_eval) is the specification of expression values".into(),
                "non-primitive permutation calls are exercised by C05/C06, not here".into(),
            ],
            components_real: vec!["CircuitBuilder", "ExpressionLowerer", "Optimizer", "CircuitRunner", "BatchStarkProver (only for unsat inputs whose run succeeds)"],
            components_stub: vec![],
            not_covered: vec!["Poseidon NPO calls inside G-prog"],
            extra: json!({}),
        },
    )
}
