//! C08 — in-circuit Merkle (MMCS) opening verification agrees with native.
//! MMCS-only pair: native `MerkleTreeMmcs::commit/open_batch/verify_batch` on seeded matrix batches
//! (equal and mixed heights, widths not aligned to the hash rate, cap height 0..2) versus the
//! in-circuit `verify_batch_circuit`. Honest openings at every index, then single faults: every
//! opened value, every sibling digest word, every index bit, every cap entry word.

use serde_json::{Value, json};

use crate::core::pool::observe;
use crate::core::prng::{Rng, mix};
use crate::core::report::{Ctx, RunOut, Spec, Tier};

#[derive(Clone, Debug, serde::Serialize, serde::Deserialize)]
pub struct MmcsShape {
    pub universe: String,
    /// (height, width) per matrix
    pub dims: Vec<(usize, usize)>,
    pub cap_height: usize,
    pub seed: u64,
}

#[derive(Clone, Debug, serde::Serialize, serde::Deserialize, PartialEq, Eq)]
pub struct MFault {
    /// "none", "value", "sibling", "index_bit", "cap"
    pub kind: String,
    pub index: usize,
    /// position inside the flattened object of that kind
    pub pos: usize,
}

/// The value fed to direction input `k`: the index bit, or (fault `index_bit_nonbool` aimed at
/// this bit) a field element that is neither 0 nor 1 — no index corresponds to it, so no opening
/// with it is one the native scheme accepts.
pub fn dir_value<F: p3_field::PrimeField64, CF: p3_field::PrimeCharacteristicRing + From<F>>(f: &MFault, log_max: usize, k: usize, bit: bool) -> CF {
    if f.kind == "index_bit_nonbool" && log_max > 0 && f.pos % log_max == k {
        let v = [2u64, 7, F::ORDER_U64 - 1][(f.pos / log_max) % 3];
        return CF::from(F::from_u64(v));
    }
    CF::from_bool(bit)
}

pub struct CaseOut {
    pub native: bool,
    pub circuit: Result<(), String>,
    pub circuit_panicked: bool,
}

/// `p2`: the Poseidon2 MMCS of p3_test_utils; `p1`: the same tree shape over the Poseidon1
/// permutation (native hash / compression types defined here, Poseidon1 table in the circuit).
macro_rules! mmcs_flavor_types {
    (p2) => {};
    (p1) => {
        type Perm1 = p3_koala_bear::Poseidon1KoalaBear<16>;
        type MyHash = p3_symmetric::PaddingFreeSponge<Perm1, 16, 8, 8>;
        type MyCompress = p3_symmetric::TruncatedPermutation<Perm1, 2, 8, 16>;
        type MyMmcs = p3_merkle_tree::MerkleTreeMmcs<<F as p3_field::Field>::Packing, <F as p3_field::Field>::Packing, MyHash, MyCompress, 2, 8>;
    };
}
macro_rules! mmcs_flavor_enable {
    (p2, $b:ident, $pp:ty, $perm:ident) => {
        $b.enable_poseidon2_perm::<$pp, _>(p3_circuit::ops::generate_poseidon2_trace::<CF, $pp>, $perm.clone());
    };
    (p1, $b:ident, $pp:ty, $perm:ident) => {
        $b.enable_poseidon1_perm::<$pp, _>(p3_circuit::ops::generate_poseidon1_trace::<CF, $pp>, $perm.clone());
    };
}

macro_rules! mmcs_universe {
    ($fname:ident, $flavor:ident, $params:ident, $p2params:ty, $p2cfg:expr, $defperm:path) => {
        pub mod $fname {
            use p3_circuit::CircuitBuilder;
            use p3_circuit::ops::{generate_recompose_trace, perm_private_data};
            use p3_commit::{BatchOpeningRef, Mmcs};
            use p3_field::{BasedVectorSpace, PrimeCharacteristicRing};
            use p3_matrix::Matrix;
            use p3_matrix::dense::RowMajorMatrix;
            use p3_recursion::pcs::verify_batch_circuit;
            use p3_test_utils::$params::*;
            use p3_util::log2_ceil_usize;

            use super::{CaseOut, MFault, MmcsShape};
            use crate::core::pool::observe;

            type CF = Challenge;
            mmcs_flavor_types!($flavor);

            fn mats(shape: &MmcsShape) -> Vec<RowMajorMatrix<F>> {
                let mut rng = crate::core::prng::Rng::new(shape.seed, "mmcs-mats", 0);
                shape
                    .dims
                    .iter()
                    .map(|(h, w)| {
                        let vals: Vec<F> = (0..h * w).map(|_| F::from_u64(rng.below(<F as p3_field::PrimeField64>::ORDER_U64))).collect();
                        RowMajorMatrix::new(vals, *w)
                    })
                    .collect()
            }

            /// Number of faultable positions of each kind for the opening at `index`:
            /// (values, sibling words, index bits, cap words)
            pub fn fault_space(shape: &MmcsShape, index: usize) -> (usize, usize, usize, usize) {
                let perm = $defperm();
                let mmcs = MyMmcs::new(MyHash::new(perm.clone()), MyCompress::new(perm), shape.cap_height);
                let ms = mats(shape);
                let max_h = ms.iter().map(|m| m.height()).max().unwrap();
                let (commit, pd) = mmcs.commit(ms);
                let o = mmcs.open_batch(index % max_h, &pd);
                (
                    o.opened_values.iter().map(|v| v.len()).sum(),
                    o.opening_proof.len() * DIGEST_ELEMS,
                    log2_ceil_usize(max_h),
                    commit.num_roots() * DIGEST_ELEMS,
                )
            }

            /// Honest opening at `index`: the verification circuit and the traces of its honest run
            /// (for the prove + verify arms of C09 / C10).
            pub fn build_and_run(shape: &MmcsShape, index: usize) -> Result<(p3_circuit::Circuit<CF>, p3_circuit::tables::Traces<CF>), String> {
                let perm = $defperm();
                let mmcs = MyMmcs::new(MyHash::new(perm.clone()), MyCompress::new(perm.clone()), shape.cap_height);
                let ms = mats(shape);
                let dimensions: Vec<_> = ms.iter().map(|m| m.dimensions()).collect();
                let max_h = max_height(shape);
                let log_max = log2_ceil_usize(max_h);
                let (commit, pd) = mmcs.commit(ms);
                let index = index % max_h;
                let opening = mmcs.open_batch(index, &pd);
                let roots: Vec<[F; DIGEST_ELEMS]> = commit.roots().to_vec();
                let mut b = CircuitBuilder::<CF>::new();
                mmcs_flavor_enable!($flavor, b, $p2params, perm);
                b.enable_recompose::<F>(generate_recompose_trace::<F, CF>);
                let openings: Vec<Vec<_>> = opening.opened_values.iter().map(|o| (0..o.len()).map(|_| b.public_input()).collect()).collect();
                let dirs = b.alloc_public_inputs(log_max, "directions");
                let rate_ext = $p2cfg.rate_ext();
                let caps: Vec<Vec<_>> = (0..roots.len()).map(|_| b.alloc_public_inputs(rate_ext, "cap").to_vec()).collect();
                let ops = verify_batch_circuit::<F, CF>(&mut b, $p2cfg, &caps, &dimensions, &dirs, &openings, None).map_err(|e| format!("{e:?}"))?;
                let circuit = b.build().map_err(|e| format!("{e:?}"))?;
                let d = <CF as BasedVectorSpace<F>>::DIMENSION;
                let mut pubs: Vec<CF> = opening.opened_values.iter().flat_map(|v| v.iter().map(|x| CF::from(*x))).collect();
                pubs.extend((0..log_max).map(|k| CF::from_bool((index >> k) & 1 == 1)));
                for r in &roots {
                    for ch in r.chunks(d) {
                        let mut c = vec![F::ZERO; d];
                        c[..ch.len()].copy_from_slice(ch);
                        pubs.push(CF::from_basis_coefficients_slice(&c).unwrap());
                    }
                }
                let traces = {
                    let mut r = circuit.runner();
                    r.set_public_inputs(&pubs).map_err(|e| format!("{e:?}"))?;
                    for (op, dg) in ops.iter().zip(opening.opening_proof.iter()) {
                        let sib: Vec<CF> = dg.chunks(d).map(|ch| CF::from_basis_coefficients_slice(ch).unwrap()).collect();
                        r.set_private_data(*op, perm_private_data($p2cfg, sib)).map_err(|e| format!("{e:?}"))?;
                    }
                    r.run().map_err(|e| format!("{e:?}"))?
                };
                Ok((circuit, traces))
            }

            pub fn max_height(shape: &MmcsShape) -> usize {
                shape.dims.iter().map(|d| d.0).max().unwrap()
            }

            pub fn run_case(shape: &MmcsShape, f: &MFault) -> Result<CaseOut, String> {
                let perm = $defperm();
                let mmcs = MyMmcs::new(MyHash::new(perm.clone()), MyCompress::new(perm.clone()), shape.cap_height);
                let ms = mats(shape);
                let dimensions: Vec<_> = ms.iter().map(|m| m.dimensions()).collect();
                let max_h = max_height(shape);
                let log_max = log2_ceil_usize(max_h);
                let (commit, pd) = mmcs.commit(ms);
                let index = f.index % max_h;
                let opening = mmcs.open_batch(index, &pd);
                let mut values: Vec<Vec<F>> = opening.opened_values.clone();
                let mut proof: Vec<[F; DIGEST_ELEMS]> = opening.opening_proof.clone();
                let mut roots: Vec<[F; DIGEST_ELEMS]> = commit.roots().to_vec();
                let mut idx2 = index;
                match f.kind.as_str() {
                    "none" => {}
                    "value" => {
                        let mut k = f.pos;
                        for v in values.iter_mut() {
                            if k < v.len() {
                                v[k] += F::ONE;
                                break;
                            }
                            k -= v.len();
                        }
                    }
                    "sibling" => {
                        if proof.is_empty() {
                            return Err("no siblings".into());
                        }
                        let (d, w) = (f.pos / DIGEST_ELEMS % proof.len(), f.pos % DIGEST_ELEMS);
                        proof[d][w] += F::ONE;
                    }
                    "index_bit" => {
                        if log_max == 0 {
                            return Err("no index bits".into());
                        }
                        idx2 = index ^ (1 << (f.pos % log_max));
                    }
                    "index_bit_nonbool" => {
                        if log_max == 0 {
                            return Err("no index bits".into());
                        }
                    }
                    "cap" => {
                        let (r, w) = (f.pos / DIGEST_ELEMS % roots.len(), f.pos % DIGEST_ELEMS);
                        roots[r][w] += F::ONE;
                    }
                    _ => return Err("unknown fault".into()),
                }
                // native
                let commit2: <MyMmcs as Mmcs<F>>::Commitment = roots.clone().into();
                let native = observe(|| mmcs.verify_batch(&commit2, &dimensions, idx2, BatchOpeningRef::new(&values, &proof)).is_ok()).unwrap_or(false);
        let native = native && f.kind != "index_bit_nonbool";
                // in-circuit
                let built = observe(|| {
                    let mut b = CircuitBuilder::<CF>::new();
                    mmcs_flavor_enable!($flavor, b, $p2params, perm);
                    b.enable_recompose::<F>(generate_recompose_trace::<F, CF>);
                    let openings: Vec<Vec<_>> = values.iter().map(|o| (0..o.len()).map(|_| b.public_input()).collect()).collect();
                    let dirs = b.alloc_public_inputs(log_max, "directions");
                    let rate_ext = $p2cfg.rate_ext();
                    let caps: Vec<Vec<_>> = (0..roots.len()).map(|_| b.alloc_public_inputs(rate_ext, "cap").to_vec()).collect();
                    let ops = verify_batch_circuit::<F, CF>(&mut b, $p2cfg, &caps, &dimensions, &dirs, &openings, None).map_err(|e| format!("{e:?}"))?;
                    let c = b.build().map_err(|e| format!("{e:?}"))?;
                    Ok::<_, String>((c, ops))
                });
                let (circuit, ops) = match built {
                    Ok(Ok(x)) => x,
                    Ok(Err(e)) => return Ok(CaseOut { native, circuit: Err(format!("build: {e}")), circuit_panicked: false }),
                    Err(p) => return Ok(CaseOut { native, circuit: Err(format!("build panic: {p}")), circuit_panicked: true }),
                };
                let d = <CF as BasedVectorSpace<F>>::DIMENSION;
                let ran = observe(|| {
                    let mut pubs: Vec<CF> = values.iter().flat_map(|v| v.iter().map(|x| CF::from(*x))).collect();
                    pubs.extend((0..log_max).map(|k| super::dir_value::<F, CF>(f, log_max, k, (idx2 >> k) & 1 == 1)));
                    for r in &roots {
                        for ch in r.chunks(d) {
                            let mut c = vec![F::ZERO; d];
                            c[..ch.len()].copy_from_slice(ch);
                            pubs.push(CF::from_basis_coefficients_slice(&c).unwrap());
                        }
                    }
                    let mut r = circuit.runner();
                    r.set_public_inputs(&pubs).map_err(|e| format!("{e:?}"))?;
                    for (op, dg) in ops.iter().zip(proof.iter()) {
                        let sib: Vec<CF> = dg.chunks(d).map(|ch| CF::from_basis_coefficients_slice(ch).unwrap()).collect();
                        r.set_private_data(*op, perm_private_data($p2cfg, sib)).map_err(|e| format!("{e:?}"))?;
                    }
                    r.run().map(|_| ()).map_err(|e| format!("{e:?}"))
                });
                Ok(match ran {
                    Ok(r) => CaseOut { native, circuit: r, circuit_panicked: false },
                    Err(p) => CaseOut { native, circuit: Err(format!("panic: {p}")), circuit_panicked: true },
                })
            }
        }
    };
}
mmcs_universe!(kb4, p2, koala_bear_params, p3_poseidon2_circuit_air::KoalaBearD4Width16, p3_circuit::ops::Poseidon2Config::KOALA_BEAR_D4_W16, p3_koala_bear::default_koalabear_poseidon2_16);
mmcs_universe!(kb4p1, p1, koala_bear_params, p3_circuit::ops::poseidon1_perm::KoalaBearD4Width16, p3_circuit::ops::Poseidon1Config::KOALA_BEAR_D4_W16, p3_koala_bear::default_koalabear_poseidon1_16);
mmcs_universe!(bb4, p2, baby_bear_params, p3_poseidon2_circuit_air::BabyBearD4Width16, p3_circuit::ops::Poseidon2Config::BABY_BEAR_D4_W16, p3_baby_bear::default_babybear_poseidon2_16);

/// Arity-4 MMCS (width-32 Poseidon2, 4-to-1 compression) over KoalaBear: native quaternary
/// `MerkleTreeMmcs<_, _, _, _, 4, 8>` versus `verify_batch_circuit_arity4`. Mixed heights put
/// step-2 "bridge" levels between quaternary layers; caps select among several roots.
pub mod kb4a4 {
    use p3_circuit::ops::{Poseidon2Config, generate_poseidon2_trace, generate_recompose_trace, perm_private_data};
    use p3_circuit::{CircuitBuilder, NonPrimitiveOpId};
    use p3_commit::{BatchOpeningRef, Mmcs};
    use p3_field::extension::BinomialExtensionField;
    use p3_field::{BasedVectorSpace, PrimeCharacteristicRing};
    use p3_koala_bear::{KoalaBear, Poseidon2KoalaBear, default_koalabear_poseidon2_32};
    use p3_matrix::Matrix;
    use p3_matrix::dense::RowMajorMatrix;
    use p3_merkle_tree::MerkleTreeMmcs;
    use p3_poseidon2_circuit_air::KoalaBearD4Width32;
    use p3_recursion::pcs::verify_batch_circuit_arity4;
    use p3_symmetric::{PaddingFreeSponge, TruncatedPermutation};
    use p3_util::log2_ceil_usize;

    use super::{CaseOut, MFault, MmcsShape};
    use crate::core::pool::observe;

    type F = KoalaBear;
    type CF = BinomialExtensionField<F, 4>;
    type Perm32 = Poseidon2KoalaBear<32>;
    type LeafHash = PaddingFreeSponge<Perm32, 32, 24, 8>;
    type Compress4 = TruncatedPermutation<Perm32, 4, 8, 32>;
    type Mmcs4 = MerkleTreeMmcs<F, F, LeafHash, Compress4, 4, 8>;
    const DIGEST_ELEMS: usize = 8;

    fn mats(shape: &MmcsShape) -> Vec<RowMajorMatrix<F>> {
        let mut rng = crate::core::prng::Rng::new(shape.seed, "mmcs-mats", 0);
        shape
            .dims
            .iter()
            .map(|(h, w)| {
                let vals: Vec<F> = (0..h * w).map(|_| F::from_u64(rng.below(<F as p3_field::PrimeField64>::ORDER_U64))).collect();
                RowMajorMatrix::new(vals, *w)
            })
            .collect()
    }

    fn mmcs(cap_height: usize) -> (Perm32, Mmcs4) {
        let perm = default_koalabear_poseidon2_32();
        let m = Mmcs4::new(LeafHash::new(perm.clone()), Compress4::new(perm.clone()), cap_height);
        (perm, m)
    }

    fn pack_digest(digest: &[F]) -> Vec<CF> {
        digest
            .chunks(4)
            .map(|ch| {
                let mut c = vec![F::ZERO; 4];
                c[..ch.len()].copy_from_slice(ch);
                CF::from_basis_coefficients_slice(&c).unwrap()
            })
            .collect()
    }

    pub fn fault_space(shape: &MmcsShape, index: usize) -> (usize, usize, usize, usize) {
        let (_, m) = mmcs(shape.cap_height);
        let ms = mats(shape);
        let max_h = ms.iter().map(|m| m.height()).max().unwrap();
        let (commit, pd) = m.commit(ms);
        let o = m.open_batch(index % max_h, &pd);
        (o.opened_values.iter().map(|v| v.len()).sum(), o.opening_proof.len() * DIGEST_ELEMS, log2_ceil_usize(max_h), commit.num_roots() * DIGEST_ELEMS)
    }

    pub fn build_and_run(shape: &MmcsShape, index: usize) -> Result<(p3_circuit::Circuit<CF>, p3_circuit::tables::Traces<CF>), String> {
        let (perm, m) = mmcs(shape.cap_height);
        let ms = mats(shape);
        let dimensions: Vec<_> = ms.iter().map(|m| m.dimensions()).collect();
        let max_h = shape.dims.iter().map(|d| d.0).max().unwrap();
        let log_max = log2_ceil_usize(max_h);
        let (commit, pd) = m.commit(ms);
        let index = index % max_h;
        let opening = m.open_batch(index, &pd);
        let roots: Vec<[F; DIGEST_ELEMS]> = commit.roots().to_vec();
        let proof = &opening.opening_proof;
        let cfg = Poseidon2Config::KOALA_BEAR_D4_W32;
        let mut b = CircuitBuilder::<CF>::new();
        b.enable_poseidon2_perm_width_32::<KoalaBearD4Width32, _>(generate_poseidon2_trace::<CF, KoalaBearD4Width32>, perm.clone());
        b.enable_recompose::<F>(generate_recompose_trace::<F, CF>);
        let openings: Vec<Vec<_>> = opening.opened_values.iter().map(|o| (0..o.len()).map(|_| b.public_input()).collect()).collect();
        let dirs = b.alloc_public_inputs(log_max, "directions");
        let caps: Vec<Vec<_>> = (0..roots.len()).map(|_| b.alloc_public_inputs(DIGEST_ELEMS / 4, "cap").to_vec()).collect();
        let ops = verify_batch_circuit_arity4::<F, CF>(&mut b, cfg, &caps, &dimensions, &dirs, &openings).map_err(|e| format!("{e:?}"))?;
        let circuit = b.build().map_err(|e| format!("{e:?}"))?;
        let mut pubs: Vec<CF> = opening.opened_values.iter().flat_map(|v| v.iter().map(|x| CF::from(*x))).collect();
        pubs.extend((0..log_max).map(|k| CF::from_bool((index >> k) & 1 == 1)));
        for r in &roots {
            pubs.extend(pack_digest(r));
        }
        if ops.len() != proof.len() {
            return Err(format!("{} sibling slots for {} proof digests", ops.len(), proof.len()));
        }
        let traces = {
            let mut r = circuit.runner();
            r.set_public_inputs(&pubs).map_err(|e| format!("{e:?}"))?;
            let capacity_ext = cfg.capacity_ext();
            let (mut pi, mut oi) = (0usize, 0usize);
            while oi < ops.len() {
                let op = ops[oi];
                let mut flat = Vec::new();
                let mut n = 0usize;
                while oi < ops.len() && ops[oi] == op {
                    flat.extend(pack_digest(&proof[pi]));
                    pi += 1;
                    oi += 1;
                    n += 1;
                }
                for _ in n..3 {
                    flat.extend(vec![CF::ZERO; capacity_ext]);
                }
                r.set_private_data(op, perm_private_data(cfg, flat)).map_err(|e| format!("{e:?}"))?;
            }
            r.run().map_err(|e| format!("{e:?}"))?
        };
        Ok((circuit, traces))
    }

    /// The pieces of an honest arity-4 opening check, not yet run (for C19's input-fault plans):
    /// circuit, public inputs, private sibling data per op, position of the direction inputs
    /// inside the public inputs and their number.
    #[allow(clippy::type_complexity)]
    pub fn build_parts(shape: &MmcsShape, index: usize) -> Result<(p3_circuit::Circuit<CF>, Vec<CF>, Vec<(p3_circuit::NonPrimitiveOpId, Vec<CF>)>, usize, usize), String> {
        let (perm, m) = mmcs(shape.cap_height);
        let ms = mats(shape);
        let dimensions: Vec<_> = ms.iter().map(|m| m.dimensions()).collect();
        let max_h = shape.dims.iter().map(|d| d.0).max().unwrap();
        let log_max = log2_ceil_usize(max_h);
        let (commit, pd) = m.commit(ms);
        let index = index % max_h;
        let opening = m.open_batch(index, &pd);
        let roots: Vec<[F; DIGEST_ELEMS]> = commit.roots().to_vec();
        let proof = &opening.opening_proof;
        let cfg = Poseidon2Config::KOALA_BEAR_D4_W32;
        let mut b = CircuitBuilder::<CF>::new();
        b.enable_poseidon2_perm_width_32::<KoalaBearD4Width32, _>(generate_poseidon2_trace::<CF, KoalaBearD4Width32>, perm.clone());
        b.enable_recompose::<F>(generate_recompose_trace::<F, CF>);
        let openings: Vec<Vec<_>> = opening.opened_values.iter().map(|o| (0..o.len()).map(|_| b.public_input()).collect()).collect();
        let dirs = b.alloc_public_inputs(log_max, "directions");
        let caps: Vec<Vec<_>> = (0..roots.len()).map(|_| b.alloc_public_inputs(DIGEST_ELEMS / 4, "cap").to_vec()).collect();
        let ops = verify_batch_circuit_arity4::<F, CF>(&mut b, cfg, &caps, &dimensions, &dirs, &openings).map_err(|e| format!("{e:?}"))?;
        let circuit = b.build().map_err(|e| format!("{e:?}"))?;
        let mut pubs: Vec<CF> = opening.opened_values.iter().flat_map(|v| v.iter().map(|x| CF::from(*x))).collect();
        let dir_off = pubs.len();
        pubs.extend((0..log_max).map(|k| CF::from_bool((index >> k) & 1 == 1)));
        for r in &roots {
            pubs.extend(pack_digest(r));
        }
        if ops.len() != proof.len() {
            return Err(format!("{} sibling slots for {} proof digests", ops.len(), proof.len()));
        }
        let capacity_ext = cfg.capacity_ext();
        let mut data = Vec::new();
        let (mut pi, mut oi) = (0usize, 0usize);
        while oi < ops.len() {
            let op = ops[oi];
            let mut flat = Vec::new();
            let mut n = 0usize;
            while oi < ops.len() && ops[oi] == op {
                flat.extend(pack_digest(&proof[pi]));
                pi += 1;
                oi += 1;
                n += 1;
            }
            for _ in n..3 {
                flat.extend(vec![CF::ZERO; capacity_ext]);
            }
            data.push((op, flat));
        }
        Ok((circuit, pubs, data, dir_off, log_max))
    }

    /// `build_and_run` for the free-state arm: the cap is either supplied (public inputs) or left
    /// to be learnt (private inputs that are withheld, so that the computed root fills their slots);
    /// `fault` = (hook call, limb, delta) on the private input state of the permutation rows.
    /// Returns the circuit, the traces and the cap as probed after the run.
    #[allow(clippy::type_complexity)]
    pub fn build_and_run_free(shape: &MmcsShape, index: usize, cap: Option<&[Vec<u64>]>, fault: Option<(usize, usize, u64)>) -> Result<(p3_circuit::Circuit<CF>, p3_circuit::tables::Traces<CF>, Vec<Vec<u64>>, bool), String> {
        use std::sync::Arc;
        use std::sync::atomic::{AtomicUsize, Ordering};
        let (perm, m) = mmcs(shape.cap_height);
        let ms = mats(shape);
        let dimensions: Vec<_> = ms.iter().map(|m| m.dimensions()).collect();
        let max_h = shape.dims.iter().map(|d| d.0).max().unwrap();
        let log_max = log2_ceil_usize(max_h);
        let (commit, pd) = m.commit(ms);
        let index = index % max_h;
        let opening = m.open_batch(index, &pd);
        if commit.num_roots() != 1 {
            return Err("free-state arm needs a single cap entry".into());
        }
        let proof = &opening.opening_proof;
        let cfg = Poseidon2Config::KOALA_BEAR_D4_W32;
        let mut b = CircuitBuilder::<CF>::new();
        b.enable_poseidon2_perm_width_32::<KoalaBearD4Width32, _>(generate_poseidon2_trace::<CF, KoalaBearD4Width32>, perm.clone());
        b.enable_recompose::<F>(generate_recompose_trace::<F, CF>);
        let openings: Vec<Vec<_>> = opening.opened_values.iter().map(|o| (0..o.len()).map(|_| b.public_input()).collect()).collect();
        let dirs = b.alloc_public_inputs(log_max, "directions");
        let caps: Vec<Vec<_>> = if cap.is_some() { vec![b.alloc_public_inputs(DIGEST_ELEMS / 4, "cap").to_vec()] } else { vec![(0..DIGEST_ELEMS / 4).map(|_| b.alloc_private_input("cap")).collect()] };
        for (k, t) in caps[0].iter().enumerate() {
            b.tag(*t, format!("cap{k}")).map_err(|e| format!("{e:?}"))?;
        }
        let ops = verify_batch_circuit_arity4::<F, CF>(&mut b, cfg, &caps, &dimensions, &dirs, &openings).map_err(|e| format!("{e:?}"))?;
        let circuit = b.build().map_err(|e| format!("{e:?}"))?;
        let mut pubs: Vec<CF> = opening.opened_values.iter().flat_map(|v| v.iter().map(|x| CF::from(*x))).collect();
        pubs.extend((0..log_max).map(|k| CF::from_bool((index >> k) & 1 == 1)));
        if let Some(c) = cap {
            pubs.extend(c.iter().map(|w| crate::gprog::f_from_u64s::<F, CF>(w)));
        }
        if ops.len() != proof.len() {
            return Err(format!("{} sibling slots for {} proof digests", ops.len(), proof.len()));
        }
        let fired = Arc::new(AtomicUsize::new(0));
        let traces = {
            let mut r = circuit.runner();
            if let Some((call, limb, delta)) = fault {
                let cnt = AtomicUsize::new(0);
                let f2 = fired.clone();
                r.set_verif_free_state_tamper(Box::new(move |_op, st: &mut [CF]| {
                    if cnt.fetch_add(1, Ordering::SeqCst) == call {
                        if let Some(x) = st.get_mut(limb) {
                            *x += CF::from(F::from_u64(delta));
                            f2.fetch_add(1, Ordering::SeqCst);
                        }
                    }
                }));
            }
            r.set_public_inputs(&pubs).map_err(|e| format!("{e:?}"))?;
            let capacity_ext = cfg.capacity_ext();
            let (mut pi, mut oi) = (0usize, 0usize);
            while oi < ops.len() {
                let op = ops[oi];
                let mut flat = Vec::new();
                let mut n = 0usize;
                while oi < ops.len() && ops[oi] == op {
                    flat.extend(pack_digest(&proof[pi]));
                    pi += 1;
                    oi += 1;
                    n += 1;
                }
                for _ in n..3 {
                    flat.extend(vec![CF::ZERO; capacity_ext]);
                }
                r.set_private_data(op, perm_private_data(cfg, flat)).map_err(|e| format!("{e:?}"))?;
            }
            r.run().map_err(|e| format!("{e:?}"))?
        };
        let probed: Vec<Vec<u64>> = (0..DIGEST_ELEMS / 4).map(|k| traces.probe(&format!("cap{k}")).map(|v| crate::gprog::f_to_u64s::<F, CF>(v)).unwrap_or_default()).collect();
        Ok((circuit, traces, probed, fired.load(Ordering::SeqCst) > 0))
    }

    pub fn run_case(shape: &MmcsShape, f: &MFault) -> Result<CaseOut, String> {
        let (perm, m) = mmcs(shape.cap_height);
        let ms = mats(shape);
        let dimensions: Vec<_> = ms.iter().map(|m| m.dimensions()).collect();
        let max_h = shape.dims.iter().map(|d| d.0).max().unwrap();
        let log_max = log2_ceil_usize(max_h);
        let (commit, pd) = m.commit(ms);
        let index = f.index % max_h;
        let opening = m.open_batch(index, &pd);
        let mut values: Vec<Vec<F>> = opening.opened_values.clone();
        let mut proof: Vec<[F; DIGEST_ELEMS]> = opening.opening_proof.clone();
        let mut roots: Vec<[F; DIGEST_ELEMS]> = commit.roots().to_vec();
        let mut idx2 = index;
        match f.kind.as_str() {
            "none" => {}
            "value" => {
                let mut k = f.pos;
                for v in values.iter_mut() {
                    if k < v.len() {
                        v[k] += F::ONE;
                        break;
                    }
                    k -= v.len();
                }
            }
            "sibling" => {
                if proof.is_empty() {
                    return Err("no siblings".into());
                }
                let (d, w) = (f.pos / DIGEST_ELEMS % proof.len(), f.pos % DIGEST_ELEMS);
                proof[d][w] += F::ONE;
            }
            "index_bit" => {
                if log_max == 0 {
                    return Err("no index bits".into());
                }
                idx2 = index ^ (1 << (f.pos % log_max));
            }
            "index_bit_nonbool" => {
                if log_max == 0 {
                    return Err("no index bits".into());
                }
            }
            "cap" => {
                let (r, w) = (f.pos / DIGEST_ELEMS % roots.len(), f.pos % DIGEST_ELEMS);
                roots[r][w] += F::ONE;
            }
            _ => return Err("unknown fault".into()),
        }
        let commit2: <Mmcs4 as Mmcs<F>>::Commitment = roots.clone().into();
        let native = observe(|| m.verify_batch(&commit2, &dimensions, idx2, BatchOpeningRef::new(&values, &proof)).is_ok()).unwrap_or(false);
        let native = native && f.kind != "index_bit_nonbool";
        let cfg = Poseidon2Config::KOALA_BEAR_D4_W32;
        let built = observe(|| {
            let mut b = CircuitBuilder::<CF>::new();
            b.enable_poseidon2_perm_width_32::<KoalaBearD4Width32, _>(generate_poseidon2_trace::<CF, KoalaBearD4Width32>, perm.clone());
            b.enable_recompose::<F>(generate_recompose_trace::<F, CF>);
            let openings: Vec<Vec<_>> = values.iter().map(|o| (0..o.len()).map(|_| b.public_input()).collect()).collect();
            let dirs = b.alloc_public_inputs(log_max, "directions");
            let caps: Vec<Vec<_>> = (0..roots.len()).map(|_| b.alloc_public_inputs(DIGEST_ELEMS / 4, "cap").to_vec()).collect();
            let ops = verify_batch_circuit_arity4::<F, CF>(&mut b, cfg, &caps, &dimensions, &dirs, &openings).map_err(|e| format!("{e:?}"))?;
            let c = b.build().map_err(|e| format!("{e:?}"))?;
            Ok::<_, String>((c, ops))
        });
        let (circuit, ops): (_, Vec<NonPrimitiveOpId>) = match built {
            Ok(Ok(x)) => x,
            Ok(Err(e)) => return Ok(CaseOut { native, circuit: Err(format!("build: {e}")), circuit_panicked: false }),
            Err(p) => return Ok(CaseOut { native, circuit: Err(format!("build panic: {p}")), circuit_panicked: true }),
        };
        let ran = observe(|| {
            let mut pubs: Vec<CF> = values.iter().flat_map(|v| v.iter().map(|x| CF::from(*x))).collect();
            pubs.extend((0..log_max).map(|k| super::dir_value::<F, CF>(f, log_max, k, (idx2 >> k) & 1 == 1)));
            for r in &roots {
                pubs.extend(pack_digest(r));
            }
            let mut r = circuit.runner();
            r.set_public_inputs(&pubs).map_err(|e| format!("{e:?}"))?;
            // consecutive equal op ids share one permutation row: 3 siblings on a step-4 level,
            // 1 on a step-2 bridge, zero-padded to 3 digests
            let capacity_ext = cfg.capacity_ext();
            if ops.len() != proof.len() {
                return Err(format!("{} sibling slots for {} proof digests ({} cap entries)", ops.len(), proof.len(), roots.len()));
            }
            let (mut pi, mut oi) = (0usize, 0usize);
            while oi < ops.len() {
                let op = ops[oi];
                let mut flat = Vec::new();
                let mut n = 0usize;
                while oi < ops.len() && ops[oi] == op {
                    flat.extend(pack_digest(&proof[pi]));
                    pi += 1;
                    oi += 1;
                    n += 1;
                }
                for _ in n..3 {
                    flat.extend(vec![CF::ZERO; capacity_ext]);
                }
                r.set_private_data(op, perm_private_data(cfg, flat)).map_err(|e| format!("{e:?}"))?;
            }
            r.run().map(|_| ()).map_err(|e| format!("{e:?}"))
        });
        Ok(match ran {
            Ok(r) => CaseOut { native, circuit: r, circuit_panicked: false },
            Err(p) => CaseOut { native, circuit: Err(format!("panic: {p}")), circuit_panicked: true },
        })
    }
}

/// Arity-2 MMCS verified inside the KoalaBear quintic circuit with the base-field (D = 1) width-16
/// permutation table (the compact layout): honest opening only, for the prove + verify arms.
pub mod kb5q {
    use p3_circuit::CircuitBuilder;
    use p3_circuit::ops::{Poseidon2Config, generate_poseidon2_trace, generate_recompose_trace, perm_private_data};
    use p3_commit::Mmcs;
    use p3_field::PrimeCharacteristicRing;
    use p3_matrix::Matrix;
    use p3_matrix::dense::RowMajorMatrix;
    use p3_recursion::pcs::verify_batch_circuit;
    use p3_test_utils::koala_bear_quintic_params::*;
    use p3_util::log2_ceil_usize;

    use super::MmcsShape;

    type CF = Challenge;
    pub const CFG: Poseidon2Config = Poseidon2Config::KOALA_BEAR_D1_W16;

    fn mats(shape: &MmcsShape) -> Vec<RowMajorMatrix<F>> {
        let mut rng = crate::core::prng::Rng::new(shape.seed, "mmcs-mats", 0);
        shape.dims.iter().map(|(h, w)| RowMajorMatrix::new((0..h * w).map(|_| F::from_u64(rng.below(<F as p3_field::PrimeField64>::ORDER_U64))).collect(), *w)).collect()
    }

    #[allow(clippy::type_complexity)]
    pub fn build_and_run(shape: &MmcsShape, index: usize) -> Result<(p3_circuit::Circuit<CF>, p3_circuit::tables::Traces<CF>), String> {
        let perm = default_koalabear_poseidon2_16();
        let mmcs = MyMmcs::new(MyHash::new(perm.clone()), MyCompress::new(perm.clone()), shape.cap_height);
        let ms = mats(shape);
        let dimensions: Vec<_> = ms.iter().map(|m| m.dimensions()).collect();
        let max_h = shape.dims.iter().map(|d| d.0).max().unwrap();
        let log_max = log2_ceil_usize(max_h);
        let (commit, pd) = mmcs.commit(ms);
        let index = index % max_h;
        let opening = mmcs.open_batch(index, &pd);
        let roots: Vec<[F; DIGEST_ELEMS]> = commit.roots().to_vec();
        let mut b = CircuitBuilder::<CF>::new();
        b.enable_poseidon2_perm_base::<p3_circuit::ops::KoalaBearD1Width16, _>(generate_poseidon2_trace::<CF, p3_circuit::ops::KoalaBearD1Width16>, LiftKoalaPermForQuintic::new(perm.clone()));
        b.enable_recompose::<F>(generate_recompose_trace::<F, CF>);
        b.set_recompose_coeff_ctl_for_decompose_links(true);
        let openings: Vec<Vec<_>> = opening.opened_values.iter().map(|o| (0..o.len()).map(|_| b.public_input()).collect()).collect();
        let dirs = b.alloc_public_inputs(log_max, "directions");
        let rate_ext = CFG.rate_ext();
        let caps: Vec<Vec<_>> = (0..roots.len()).map(|_| b.alloc_public_inputs(rate_ext, "cap").to_vec()).collect();
        let ops = verify_batch_circuit::<F, CF>(&mut b, CFG, &caps, &dimensions, &dirs, &openings, None).map_err(|e| format!("{e:?}"))?;
        let circuit = b.build().map_err(|e| format!("{e:?}"))?;
        let mut pubs: Vec<CF> = opening.opened_values.iter().flat_map(|v| v.iter().map(|x| CF::from(*x))).collect();
        pubs.extend((0..log_max).map(|k| CF::from_bool((index >> k) & 1 == 1)));
        for r in &roots {
            pubs.extend(r.iter().map(|x| CF::from(*x)));
        }
        let traces = {
            let mut r = circuit.runner();
            r.set_public_inputs(&pubs).map_err(|e| format!("{e:?}"))?;
            for (op, dg) in ops.iter().zip(opening.opening_proof.iter()) {
                let sib: Vec<CF> = dg.iter().map(|x| CF::from(*x)).collect();
                r.set_private_data(*op, perm_private_data(CFG, sib)).map_err(|e| format!("{e:?}"))?;
            }
            r.run().map_err(|e| format!("{e:?}"))?
        };
        Ok((circuit, traces))
    }
}

/// Hiding (salted) arity-2 MMCS over KoalaBear: native `MerkleTreeHidingMmcs` (leaf = `[row | salt]`
/// per matrix) versus `verify_batch_circuit` with salt targets. Extra fault kind: one salt element.
pub mod kb4salt {
    use p3_circuit::CircuitBuilder;
    use p3_circuit::ops::{generate_poseidon2_trace, generate_recompose_trace, perm_private_data};
    use p3_commit::{BatchOpeningRef, Mmcs};
    use p3_field::{BasedVectorSpace, PrimeCharacteristicRing};
    use p3_matrix::Matrix;
    use p3_matrix::dense::RowMajorMatrix;
    use p3_recursion::pcs::verify_batch_circuit;
    use p3_test_utils::koala_bear_params::*;
    use p3_util::log2_ceil_usize;

    use super::{CaseOut, MFault, MmcsShape};
    use crate::core::pool::observe;

    type CF = Challenge;
    const SALT: usize = 4;
    type HMmcs = p3_merkle_tree::MerkleTreeHidingMmcs<<F as p3_field::Field>::Packing, <F as p3_field::Field>::Packing, MyHash, MyCompress, rand::rngs::SmallRng, 2, DIGEST_ELEMS, SALT>;
    const CFG: p3_circuit::ops::Poseidon2Config = p3_circuit::ops::Poseidon2Config::KOALA_BEAR_D4_W16;

    fn mats(shape: &MmcsShape) -> Vec<RowMajorMatrix<F>> {
        let mut rng = crate::core::prng::Rng::new(shape.seed, "mmcs-mats", 0);
        shape.dims.iter().map(|(h, w)| RowMajorMatrix::new((0..h * w).map(|_| F::from_u64(rng.below(<F as p3_field::PrimeField64>::ORDER_U64))).collect(), *w)).collect()
    }
    fn mmcs(shape: &MmcsShape) -> HMmcs {
        let perm = p3_koala_bear::default_koalabear_poseidon2_16();
        HMmcs::new(MyHash::new(perm.clone()), MyCompress::new(perm), shape.cap_height, <rand::rngs::SmallRng as rand::SeedableRng>::seed_from_u64(shape.seed))
    }

    /// (values, sibling words, index bits, cap words, salt elements)
    pub fn fault_space(shape: &MmcsShape, index: usize) -> (usize, usize, usize, usize, usize) {
        let m = mmcs(shape);
        let ms = mats(shape);
        let max_h = ms.iter().map(|m| m.height()).max().unwrap();
        let (commit, pd) = m.commit(ms);
        let o = m.open_batch(index % max_h, &pd);
        (o.opened_values.iter().map(|v| v.len()).sum(), o.opening_proof.1.len() * DIGEST_ELEMS, log2_ceil_usize(max_h), commit.num_roots() * DIGEST_ELEMS, o.opening_proof.0.iter().map(|v| v.len()).sum())
    }

    pub fn run_case(shape: &MmcsShape, f: &MFault) -> Result<CaseOut, String> {
        let perm = p3_koala_bear::default_koalabear_poseidon2_16();
        let m = mmcs(shape);
        let ms = mats(shape);
        let dimensions: Vec<_> = ms.iter().map(|m| m.dimensions()).collect();
        let max_h = shape.dims.iter().map(|d| d.0).max().unwrap();
        let log_max = log2_ceil_usize(max_h);
        let (commit, pd) = m.commit(ms);
        let index = f.index % max_h;
        let opening = m.open_batch(index, &pd);
        let mut values: Vec<Vec<F>> = opening.opened_values.clone();
        let (mut salts, mut proof): (Vec<Vec<F>>, Vec<[F; DIGEST_ELEMS]>) = (opening.opening_proof.0.iter().map(|s| s.to_vec()).collect(), opening.opening_proof.1.clone());
        let mut roots: Vec<[F; DIGEST_ELEMS]> = commit.roots().to_vec();
        let mut idx2 = index;
        match f.kind.as_str() {
            "none" => {}
            "value" => {
                let mut k = f.pos;
                for v in values.iter_mut() {
                    if k < v.len() {
                        v[k] += F::ONE;
                        break;
                    }
                    k -= v.len();
                }
            }
            "salt" => {
                let mut k = f.pos;
                for v in salts.iter_mut() {
                    if k < v.len() {
                        v[k] += F::ONE;
                        break;
                    }
                    k -= v.len();
                }
            }
            "sibling" => {
                if proof.is_empty() {
                    return Err("no siblings".into());
                }
                let (d, w) = (f.pos / DIGEST_ELEMS % proof.len(), f.pos % DIGEST_ELEMS);
                proof[d][w] += F::ONE;
            }
            "index_bit" => {
                if log_max == 0 {
                    return Err("no index bits".into());
                }
                idx2 = index ^ (1 << (f.pos % log_max));
            }
            "index_bit_nonbool" => {
                if log_max == 0 {
                    return Err("no index bits".into());
                }
            }
            "cap" => {
                let (r, w) = (f.pos / DIGEST_ELEMS % roots.len(), f.pos % DIGEST_ELEMS);
                roots[r][w] += F::ONE;
            }
            _ => return Err("unknown fault".into()),
        }
        let commit2: <HMmcs as Mmcs<F>>::Commitment = roots.clone().into();
        let native_proof = (salts.clone(), proof.clone());
        let native = observe(|| m.verify_batch(&commit2, &dimensions, idx2, BatchOpeningRef::new(&values, &native_proof)).is_ok()).unwrap_or(false);
        let native = native && f.kind != "index_bit_nonbool";
        let built = observe(|| {
            let mut b = CircuitBuilder::<CF>::new();
            b.enable_poseidon2_perm::<p3_poseidon2_circuit_air::KoalaBearD4Width16, _>(generate_poseidon2_trace::<CF, p3_poseidon2_circuit_air::KoalaBearD4Width16>, perm.clone());
            b.enable_recompose::<F>(generate_recompose_trace::<F, CF>);
            let openings: Vec<Vec<_>> = values.iter().map(|o| (0..o.len()).map(|_| b.public_input()).collect()).collect();
            let salt_t: Vec<Vec<_>> = salts.iter().map(|o| (0..o.len()).map(|_| b.public_input()).collect()).collect();
            let dirs = b.alloc_public_inputs(log_max, "directions");
            let caps: Vec<Vec<_>> = (0..roots.len()).map(|_| b.alloc_public_inputs(CFG.rate_ext(), "cap").to_vec()).collect();
            let ops = verify_batch_circuit::<F, CF>(&mut b, CFG, &caps, &dimensions, &dirs, &openings, Some(&salt_t)).map_err(|e| format!("{e:?}"))?;
            let c = b.build().map_err(|e| format!("{e:?}"))?;
            Ok::<_, String>((c, ops))
        });
        let (circuit, ops) = match built {
            Ok(Ok(x)) => x,
            Ok(Err(e)) => return Ok(CaseOut { native, circuit: Err(format!("build: {e}")), circuit_panicked: false }),
            Err(p) => return Ok(CaseOut { native, circuit: Err(format!("build panic: {p}")), circuit_panicked: true }),
        };
        let d = <CF as BasedVectorSpace<F>>::DIMENSION;
        let ran = observe(|| {
            let mut pubs: Vec<CF> = values.iter().flat_map(|v| v.iter().map(|x| CF::from(*x))).collect();
            pubs.extend(salts.iter().flat_map(|v| v.iter().map(|x| CF::from(*x))));
            pubs.extend((0..log_max).map(|k| super::dir_value::<F, CF>(f, log_max, k, (idx2 >> k) & 1 == 1)));
            for r in &roots {
                for ch in r.chunks(d) {
                    pubs.push(CF::from_basis_coefficients_slice(ch).unwrap());
                }
            }
            let mut r = circuit.runner();
            r.set_public_inputs(&pubs).map_err(|e| format!("{e:?}"))?;
            for (op, dg) in ops.iter().zip(proof.iter()) {
                let sib: Vec<CF> = dg.chunks(d).map(|ch| CF::from_basis_coefficients_slice(ch).unwrap()).collect();
                r.set_private_data(*op, perm_private_data(CFG, sib)).map_err(|e| format!("{e:?}"))?;
            }
            r.run().map(|_| ()).map_err(|e| format!("{e:?}"))
        });
        Ok(match ran {
            Ok(r) => CaseOut { native, circuit: r, circuit_panicked: false },
            Err(p) => CaseOut { native, circuit: Err(format!("panic: {p}")), circuit_panicked: true },
        })
    }
}

fn run_case(shape: &MmcsShape, f: &MFault) -> Result<CaseOut, String> {
    match observe(|| match shape.universe.as_str() {
        "U-BB4" => bb4::run_case(shape, f),
        "U-KB4-P1" => kb4p1::run_case(shape, f),
        "U-KB4-A4" => kb4a4::run_case(shape, f),
        "U-KB4-SALT" => kb4salt::run_case(shape, f),
        _ => kb4::run_case(shape, f),
    }) {
        Ok(r) => r,
        Err(p) => Err(format!("panic: {p}")),
    }
}
fn fault_space(shape: &MmcsShape, index: usize) -> (usize, usize, usize, usize) {
    match shape.universe.as_str() {
        "U-BB4" => bb4::fault_space(shape, index),
        "U-KB4-P1" => kb4p1::fault_space(shape, index),
        "U-KB4-A4" => kb4a4::fault_space(shape, index),
        "U-KB4-SALT" => {
            let x = kb4salt::fault_space(shape, index);
            (x.0, x.1, x.2, x.3)
        }
        _ => kb4::fault_space(shape, index),
    }
}

pub fn draw_shape(rng: &mut Rng, universe: &str, tier: Tier) -> MmcsShape {
    let n = rng.range(1, 5);
    let mode = rng.below(4);
    let base_log = rng.range(0, tier.pick(5, 6));
    let dims: Vec<(usize, usize)> = (0..n)
        .map(|i| {
            let h = match mode {
                0 => 1usize << base_log,                                   // equal heights
                1 => 1usize << rng.range(0, base_log.max(1)),              // mixed powers of two
                2 => 1usize << base_log.saturating_sub(i),                 // strictly decreasing
                _ => if i == 0 { 1usize << base_log } else { 1usize << rng.range(0, base_log.max(1)) },
            };
            let w = *rng.pick(&[1, 2, 3, 5, 7, 8, 9, 15, 16, 17, 24]);
            (h, w)
        })
        .collect();
    let max_log = dims.iter().map(|d| d.0.trailing_zeros() as usize).max().unwrap();
    let cap_height = rng.range(0, 2).min(max_log);
    MmcsShape { universe: universe.to_string(), dims, cap_height, seed: rng.next_u64() }
}

/// C08's own shapes: one run in three replaces every power-of-two height class 2^l (l >= 2) by
/// one height drawn from (2^(l-1), 2^l] (matrices of one class keep a common height, which is what
/// the native tree demands), so that leaf layers and padded layer widths are not powers of two.
pub fn draw_shape_c08(rng: &mut Rng, universe: &str, tier: Tier) -> (MmcsShape, bool) {
    let mut shape = draw_shape(rng, universe, tier);
    let a4 = universe == "U-KB4-A4";
    if a4 && rng.chance(1, 3) {
        // matrices sitting exactly on quaternary layers: heights top, top/4, top/16, ... (some repeated)
        let top = shape.dims.iter().map(|d| d.0).max().unwrap();
        let mut level = 0u32;
        for (i, d) in shape.dims.iter_mut().enumerate() {
            if i > 0 && rng.chance(2, 3) {
                level += 2;
            }
            d.0 = (top >> level).max(1);
        }
        shape.cap_height = shape.cap_height.min(top.trailing_zeros() as usize);
    }
    if rng.chance(if a4 { 2 } else { 1 }, 3) {
        // the tallest height h is drawn from (2^(L-1), 2^L]; a matrix k levels further up has
        // ceil(h / 2^k) rows (the native tree refuses anything else)
        let top = shape.dims.iter().map(|d| d.0).max().unwrap();
        if top >= 4 {
            let h = rng.range(top / 2 + 1, top);
            let mut cand = shape.clone();
            for d in cand.dims.iter_mut() {
                let k = (top / d.0).trailing_zeros();
                d.0 = h.div_ceil(1 << k);
            }
            // a shape the native commit refuses (panic) is not a shape
            if run_case(&cand, &MFault { kind: "none".into(), index: 0, pos: 0 }).is_ok() {
                return (cand, true);
            }
            return (shape, false);
        }
    }
    (shape, true)
}

fn key_of(f: &MFault, o: &CaseOut) -> String {
    format!("{}:native={} circuit={}", f.kind, if o.native { "accept" } else { "reject" }, if o.circuit.is_ok() { "accept" } else { "reject" })
}

pub fn one_run(ctx: &Ctx, idx: u64, out: &mut RunOut) {
    let mut rng = Rng::new(ctx.seed, "C08", idx);
    foldhash::sim::set_seed(mix(ctx.seed, idx));
    let uni = ["U-KB4", "U-BB4", "U-KB4-A4", "U-KB4-SALT", "U-KB4-P1"][(idx % 5) as usize];
    let (shape, accepted) = draw_shape_c08(&mut rng, uni, ctx.tier);
    if !accepted {
        out.count("non_power_of_two_shape_refused_by_native_commit");
    }
    let max_h = shape.dims.iter().map(|d| d.0).max().unwrap();
    if shape.dims.iter().any(|d| !d.0.is_power_of_two()) {
        out.count("shapes_with_non_power_of_two_heights");
    }
    if out.samples.is_empty() {
        out.samples.push(json!({"shape": shape}));
    }
    let shape_class = {
        let mut hs: Vec<usize> = shape.dims.iter().map(|d| d.0).collect();
        hs.sort();
        hs.dedup();
        format!("{}mats:{}heights:cap{}", shape.dims.len(), hs.len(), shape.cap_height)
    };
    // honest opening at every index
    let mut honest_ok = true;
    for index in 0..max_h {
        let f = MFault { kind: "none".into(), index, pos: 0 };
        let o = match run_case(&shape, &f) {
            Ok(o) => o,
            Err(_) => {
                out.count("case_error");
                continue;
            }
        };
        out.evals += 1;
        out.count("honest_openings");
        if !(o.native && o.circuit.is_ok()) {
            honest_ok = false;
            if std::env::var("VERIF_DUMP_SKIPPED").is_ok() {
                eprintln!("HONESTFAIL idx={index} {} {:?}", serde_json::to_string(&shape).unwrap_or_default(), o.circuit);
            }
            // the arity-4 builder infers where the cap sits from the number of cap entries alone;
            // a 2-wide bridge layer padded to 4 makes that ambiguous (two layers of width 4), and
            // it then allocates fewer sibling slots than the native proof has digests
            let structural = matches!(&o.circuit, Err(e) if e.contains("sibling slots for"));
            let key = if o.native && structural { format!("honest:arity4_fewer_sibling_slots_than_native_proof:cap{}", shape.cap_height) } else { format!("honest:{}", key_of(&f, &o)) };
            out.violate(key, format!("honest opening at index {index}: native {} circuit {:?}", o.native, o.circuit), json!({"shape": shape, "fault": f}));
            break;
        }
    }
    if !honest_ok {
        return;
    }
    // faults at a sample of indices (all indices in thorough for small trees)
    let n_idx = ctx.tier.pick(2, 6).min(max_h);
    let mut indices: Vec<usize> = (0..max_h).collect();
    rng.shuffle(&mut indices);
    for &index in indices.iter().take(n_idx) {
        let (nv, ns, nb, nc) = fault_space(&shape, index);
        let mut plans: Vec<MFault> = Vec::new();
        if shape.universe == "U-KB4-SALT" {
            let nsalt = kb4salt::fault_space(&shape, index).4;
            plans.extend((0..nsalt).map(|p| MFault { kind: "salt".into(), index, pos: p }));
        }
        plans.extend((0..nv).map(|p| MFault { kind: "value".into(), index, pos: p }));
        plans.extend((0..ns).map(|p| MFault { kind: "sibling".into(), index, pos: p }));
        plans.extend((0..nb).map(|p| MFault { kind: "index_bit".into(), index, pos: p }));
        plans.extend((0..nc).map(|p| MFault { kind: "cap".into(), index, pos: p }));
        plans.extend((0..3 * nb).map(|p| MFault { kind: "index_bit_nonbool".into(), index, pos: p }));
        for f in plans {
            let o = match run_case(&shape, &f) {
                Ok(o) => o,
                Err(_) => {
                    out.count("fault_not_applicable");
                    continue;
                }
            };
            out.evals += 1;
            out.steps += 1;
            out.count(&format!("fired_{}", f.kind));
            out.distinct.insert(crate::core::prng::fnv64(format!("{uni}:{shape_class}:{}", f.kind).as_bytes()));
            if o.circuit_panicked {
                out.count("circuit_side_panic_counted_as_reject");
            }
            if o.native {
                out.count("faulted_but_native_accepts");
            }
            if o.native != o.circuit.is_ok() {
                out.violate(key_of(&f, &o), format!("{f:?}: native {} but circuit {:?}", if o.native { "accepts" } else { "rejects" }, o.circuit), json!({"shape": shape, "fault": f}));
            }
        }
    }
}

pub fn main(ctx: &Ctx) -> i32 {
    if let Some(path) = &ctx.replay {
        let body: Value = match std::fs::read_to_string(path).ok().and_then(|s| serde_json::from_str(&s).ok()) {
            Some(b) => b,
            None => {
                eprintln!("harness error: cannot read replay file");
                return 2;
            }
        };
        let shape: MmcsShape = serde_json::from_value(body["detail"]["shape"].clone()).unwrap();
        let f: MFault = serde_json::from_value(body["detail"]["fault"].clone()).unwrap();
        return match run_case(&shape, &f) {
            Ok(o) => {
                println!("replay: native={} circuit={:?}", o.native, o.circuit);
                let bad = if f.kind == "none" { !(o.native && o.circuit.is_ok()) } else { o.native != o.circuit.is_ok() };
                if bad {
                    println!("VIOLATION property={} replay={}", ctx.prop, path.display());
                    1
                } else {
                    println!("replay did not reproduce");
                    0
                }
            }
            Err(e) => {
                println!("replay: {e}");
                0
            }
        };
    }
    let runs: u64 = ctx.tier.pick(600, 12000);
    let res = crate::core::pool::run_jobs(runs, |idx| {
        let mut out = RunOut::default();
        one_run(ctx, idx, &mut out);
        let mut d = crate::core::prng::Digest::new();
        d.u64(out.evals);
        for (k, v) in &out.counters {
            d.str(k);
            d.u64(*v);
        }
        out.digest = d.finish();
        out
    });
    let outs = match res {
        Ok(o) => o,
        Err(e) => {
            eprintln!("harness error: {e}");
            return 2;
        }
    };
    let mut total = RunOut::default();
    for o in outs {
        total.merge(o);
    }
    crate::core::report::finish(
        ctx,
        &total,
        runs,
        Spec {
            level: "fault_enumeration",
            rule: "one run = one seeded batch of 1..5 matrices (heights 1..32/64: equal, mixed powers of two, strictly decreasing, one run in three (two in three for arity 4) with a non-power-of-two tallest height h and ceil(h/2^k) rows further up, arity-4 batches sitting exactly on quaternary layers; widths from {1,2,3,5,7,8,9,15,16,17,24}; cap height 0..2) committed by the native MerkleTreeMmcs (binary trees over KoalaBear / BabyBear width-16 Poseidon2, and quaternary trees over KoalaBear width-32 Poseidon2 against verify_batch_circuit_arity4, and salted MerkleTreeHidingMmcs binary trees over KoalaBear with one more fault kind (every salt element), one run in four each); honest opening at every index natively and in-circuit; then at 2/6 sampled indices every opened value, every sibling digest word, every index bit and every cap entry word is altered, one at a time, and every direction input is given a non-boolean value (2, 7, p-1: corresponds to no index, must be refused); native verify_batch verdict == circuit run verdict. distinct = distinct (universe, #matrices, #distinct heights, cap height, fault kind).",
            exhaustive: true,
            assumptions: vec!["exhaustive over single faults of the sampled openings; dimension vectors and indices sampled".into()],
            components_real: vec!["MerkleTreeMmcs commit/open_batch/verify_batch", "verify_batch_circuit", "add_mmcs_verify / Poseidon2 Merkle-mode executor", "CircuitRunner"],
            components_stub: vec![],
            not_covered: vec!["arity-4 with BabyBear", "salted arity-4",  "extension-field leaves (verify_batch_circuit_from_extension_opened; exercised through FRI commit-phase openings in C01/C07)", "heights the native tree refuses"],
            extra: json!({}),
        },
    )
}
