//! C19 — the runner fails safely on missing, extra or conflicting inputs, identically in debug and
//! optimized builds. Every case runs in two builds of this same harness that differ only in
//! `debug-assertions` (profiles `release` and `relchk`), each in its own crash-isolated worker
//! process; the two outcome streams are compared line by line.

use std::io::{BufRead, BufReader, Write};

use p3_circuit::CircuitBuilder;
use p3_field::PrimeCharacteristicRing;
use serde_json::{Value, json};

use crate::core::pool::observe;
use crate::core::prng::{Rng, mix};
use crate::core::report::{Ctx, RunOut, Spec};
use crate::gprog::{self, GenCfg, Program, f_from_u64s};
use crate::pipe;
use crate::uni::{BuilderOpts, CircuitUni, Kb4};

type U = Kb4;
type EF = <U as CircuitUni>::EF;
type BF = <U as CircuitUni>::BF;

/// Input-fault plan.
#[derive(Clone, Debug, PartialEq, Eq)]
pub enum Plan {
    Control,
    WithholdPublic,
    WithholdPrivate,
    WithholdBoth,
    PublicLen(i32),
    PrivateLen(i32),
    PublicZeroLen,
    PrivateZeroLen,
    SetPublicTwiceSame,
    SetPublicTwiceDifferent,
    SetPrivateTwiceDifferent,
    /// give one public input a different value (conflicts with whatever it is connected to)
    ConflictPublic(usize),
    ConflictPrivate(usize),
    /// private data faults on circuits with MMCS-style ops are exercised through shape M below
    PrivateDataWithheld,
    PrivateDataUnknownTag,
    PrivateDataTwice,
    PrivateDataWrongOp,
    /// direction input `k` of a Merkle shape gets the non-boolean value `v`
    NonBooleanBit(usize, u64),
}
impl Plan {
    pub fn name(&self) -> String {
        match self {
            Plan::PublicLen(d) => format!("public_len{d:+}"),
            Plan::PrivateLen(d) => format!("private_len{d:+}"),
            Plan::ConflictPublic(_) => "conflict_public".into(),
            Plan::ConflictPrivate(_) => "conflict_private".into(),
            Plan::NonBooleanBit(..) => "nonbooleanbit".into(),
            p => format!("{p:?}").to_lowercase(),
        }
    }
    /// Must the run fail for this plan (given that the control run succeeds)?
    pub fn must_fail(&self, n_pub: usize, n_priv: usize) -> Option<bool> {
        match self {
            Plan::Control | Plan::SetPublicTwiceSame => Some(false),
            Plan::WithholdPublic | Plan::PublicZeroLen => Some(n_pub > 0),
            Plan::WithholdPrivate | Plan::PrivateZeroLen => Some(n_priv > 0),
            Plan::WithholdBoth => Some(n_pub + n_priv > 0),
            Plan::PublicLen(_) | Plan::PrivateLen(_) => Some(true),
            Plan::SetPublicTwiceDifferent => Some(n_pub > 0),
            Plan::SetPrivateTwiceDifferent => Some(n_priv > 0),
            // a changed value conflicts only if the input is constrained by something: not decidable
            // from the plan alone; the twin-build agreement is the oracle there
            Plan::ConflictPublic(_) | Plan::ConflictPrivate(_) => None,
            Plan::PrivateDataWithheld | Plan::PrivateDataUnknownTag | Plan::PrivateDataTwice | Plan::PrivateDataWrongOp => Some(true),
            Plan::NonBooleanBit(..) => Some(true),
        }
    }
}

/// Workload shapes: G-prog program (primitive + hints), or hand-built circuits where private
/// inputs are consumed by non-primitive ops.
#[derive(Clone, Debug)]
pub enum Shape {
    Prog(Program),
    /// privates x0..x3 feed a Poseidon2 permutation; one rate output is multiplied with a public
    PermOnPrivates,
    /// privates c0..c3 (base) feed the recompose table; result added to a public
    RecomposeOnPrivates,
    /// a private input feeds a permutation and is *also* connected to an op output created later
    /// (so the slot gets filled after the permutation ran)
    PermOnPrivateFilledLater,
    /// Merkle path verification with private sibling data
    Mmcs,
    /// arity-4 Merkle path verification (width-32 permutation, two direction bits per level)
    MmcsQuad,
    /// two public inputs merged by `connect` (one slot, two public rows), used by an ALU op
    MergedPublics,
    /// a private input connected to a public input (one slot), used by an ALU op
    PrivateIsPublic,
}

fn build_shape(shape: &Shape) -> Result<(p3_circuit::Circuit<EF>, Vec<EF>, Vec<EF>, Vec<p3_circuit::NonPrimitiveOpId>), String> {
    let opts = BuilderOpts { poseidon: true, recompose: true };
    match shape {
        Shape::Prog(p) => {
            let c = pipe::build_circuit::<U>(p, BuilderOpts::default(), false).map_err(|f| f.msg)?;
            let pubs = p.publics.iter().map(|v| f_from_u64s::<BF, EF>(v)).collect();
            let privs = p.privates.iter().map(|v| f_from_u64s::<BF, EF>(v)).collect();
            Ok((c, pubs, privs, vec![]))
        }
        Shape::PermOnPrivates | Shape::PermOnPrivateFilledLater => {
            let mut b: CircuitBuilder<EF> = U::builder(opts);
            let xs: Vec<_> = (0..4).map(|_| b.alloc_private_input("x")).collect();
            let y = b.public_input();
            let outs = b
                .add_poseidon2_perm_for_challenger(p3_circuit::ops::Poseidon2Config::KOALA_BEAR_D4_W16, &xs)
                .map_err(|e| format!("{e:?}"))?;
            // the permutation is the only consumer of the private inputs before they may be filled
            let _m = b.mul(outs[0], y);
            let mut pubs = vec![EF::from_u64(7)];
            if matches!(shape, Shape::PermOnPrivateFilledLater) {
                // every x_i == z_i + w_i with z_i, w_i public: each Add's out shares x_i's slot and is
                // emitted after the permutation that reads x_i
                for (i, v) in [5u64, 11, 13, 17].iter().enumerate() {
                    let z = b.public_input();
                    let w = b.public_input();
                    let s = b.add(z, w);
                    b.connect(xs[i], s);
                    pubs.extend([EF::from_u64(2), EF::from_u64(v - 2)]);
                }
            }
            let c = b.build().map_err(|e| format!("{e:?}"))?;
            let privs = vec![EF::from_u64(5), EF::from_u64(11), EF::from_u64(13), EF::from_u64(17)];
            Ok((c, pubs, privs, vec![]))
        }
        Shape::RecomposeOnPrivates => {
            let mut b: CircuitBuilder<EF> = U::builder(opts);
            let cs: Vec<_> = (0..4).map(|_| b.alloc_private_input("c")).collect();
            let y = b.public_input();
            let r = b.recompose_base_coeffs_to_ext::<BF>(&cs).map_err(|e| format!("{e:?}"))?;
            let s = b.add(r, y);
            let _ = b.mul(s, cs[0]);
            let c = b.build().map_err(|e| format!("{e:?}"))?;
            Ok((c, vec![EF::from_u64(9)], vec![EF::from_u64(1), EF::from_u64(2), EF::from_u64(3), EF::from_u64(4)], vec![]))
        }
        Shape::MergedPublics | Shape::PrivateIsPublic => {
            let mut b: CircuitBuilder<EF> = U::builder(BuilderOpts::default());
            let x = b.public_input();
            let merged_pub = matches!(shape, Shape::MergedPublics);
            let y = if merged_pub { b.public_input() } else { b.alloc_private_input("y") };
            b.connect(x, y);
            let z = b.public_input();
            let s1 = b.add(x, z);
            let _ = b.mul(s1, y);
            let c = b.build().map_err(|e| format!("{e:?}"))?;
            let v = EF::from_u64(21);
            if merged_pub { Ok((c, vec![v, v, EF::from_u64(4)], vec![], vec![])) } else { Ok((c, vec![v, EF::from_u64(4)], vec![v], vec![])) }
        }
        Shape::MmcsQuad => Err("handled by run_case_quad".into()),
        Shape::Mmcs => {
            // a 4-leaf Merkle path check: shape M of C08 (single 4x3 matrix)
            use p3_commit::Mmcs as _;
            use p3_matrix::Matrix;
            use p3_test_utils::koala_bear_params::*;
            let perm = p3_koala_bear::default_koalabear_poseidon2_16();
            let mmcs = MyMmcs::new(MyHash::new(perm.clone()), MyCompress::new(perm), 0);
            let m = p3_matrix::dense::RowMajorMatrix::new((1..=12u64).map(BF::from_u64).collect(), 3);
            let dims = vec![m.dimensions()];
            let (commit, pd) = mmcs.commit(vec![m]);
            let o = mmcs.open_batch(2, &pd);
            let mut b: CircuitBuilder<EF> = U::builder(opts);
            let openings: Vec<Vec<_>> = o.opened_values.iter().map(|v| (0..v.len()).map(|_| b.public_input()).collect()).collect();
            let dirs = b.alloc_public_inputs(2, "dirs");
            let caps: Vec<Vec<_>> = vec![b.alloc_public_inputs(2, "cap").to_vec()];
            let ops = p3_recursion::pcs::verify_batch_circuit::<BF, EF>(&mut b, p3_circuit::ops::Poseidon2Config::KOALA_BEAR_D4_W16, &caps, &dims, &dirs, &openings, None)
                .map_err(|e| format!("{e:?}"))?;
            for (i, op) in ops.iter().enumerate() {
                b.tag_op(*op, format!("sib{i}")).map_err(|e| format!("{e:?}"))?;
            }
            let c = b.build().map_err(|e| format!("{e:?}"))?;
            let mut pubs: Vec<EF> = o.opened_values.iter().flat_map(|v| v.iter().map(|x| EF::from(*x))).collect();
            pubs.extend([EF::ZERO, EF::ONE]);
            for r in commit.roots() {
                for ch in r.chunks(4) {
                    pubs.push(<EF as p3_field::BasedVectorSpace<BF>>::from_basis_coefficients_slice(ch).unwrap());
                }
            }
            // siblings are stashed in the private vector slot of the tuple as extension limbs
            let sib: Vec<EF> = o.opening_proof.iter().flat_map(|d| d.chunks(4).map(|ch| <EF as p3_field::BasedVectorSpace<BF>>::from_basis_coefficients_slice(ch).unwrap()).collect::<Vec<_>>()).collect();
            Ok((c, pubs, sib, ops))
        }
    }
}

fn err_kind(e: &str) -> String {
    e.split(|c: char| !c.is_alphanumeric()).find(|x| !x.is_empty()).unwrap_or("err").to_string()
}

/// Execute one case; returns the outcome string "ok:<digest>" | "err:<Kind>" | "panic:<kind>".
fn quad_shape() -> crate::props::c08::MmcsShape {
    crate::props::c08::MmcsShape { universe: "U-KB4-A4".into(), dims: vec![(16, 3), (4, 2)], cap_height: 0, seed: 5 }
}

/// The arity-4 Merkle shape under the plans that apply to it (it has public inputs and private
/// sibling data, no private inputs).
fn run_case_quad(plan: &Plan) -> String {
    let (c, pubs, data, dir_off, n_dirs) = match crate::props::c08::kb4a4::build_parts(&quad_shape(), 6) {
        Ok(x) => x,
        Err(e) => return format!("builderr:{}", err_kind(&e)),
    };
    let r = observe(|| -> Result<u64, String> {
        let e = |x: p3_circuit::CircuitError| format!("{x:?}");
        let mut r = c.runner();
        let mut pubs2 = pubs.clone();
        let mut set_pub = true;
        match plan {
            Plan::WithholdPublic => set_pub = false,
            Plan::PublicLen(d) => {
                if *d > 0 {
                    pubs2.push(EF::ONE)
                } else {
                    pubs2.pop();
                }
            }
            Plan::PublicZeroLen => pubs2.clear(),
            Plan::ConflictPublic(i) => {
                let k = i % pubs2.len();
                pubs2[k] += EF::ONE;
            }
            Plan::NonBooleanBit(k, v) => pubs2[dir_off + k % n_dirs] = EF::from_u64(*v),
            _ => {}
        }
        if set_pub {
            r.set_public_inputs(&pubs2).map_err(e)?;
            if *plan == Plan::SetPublicTwiceDifferent {
                let mut p3v = pubs2.clone();
                p3v[0] += EF::ONE;
                r.set_public_inputs(&p3v).map_err(e)?;
            }
        }
        let cfg = p3_circuit::ops::Poseidon2Config::KOALA_BEAR_D4_W32;
        for (i, (op, flat)) in data.iter().enumerate() {
            if *plan == Plan::PrivateDataWithheld && i == 0 {
                continue;
            }
            r.set_private_data(*op, p3_circuit::ops::perm_private_data(cfg, flat.clone())).map_err(e)?;
        }
        let t = r.run().map_err(e)?;
        Ok(pipe::traces_digest::<U>(&t))
    });
    match r {
        Ok(Ok(d)) => format!("ok:{d:016x}"),
        Ok(Err(e)) => format!("err:{}", err_kind(&e)),
        Err(p) => format!("panic:{}", err_kind(&p)),
    }
}

pub fn run_case(shape: &Shape, plan: &Plan) -> String {
    if matches!(shape, Shape::MmcsQuad) {
        return run_case_quad(plan);
    }
    let (c, pubs, privs, ops) = match build_shape(shape) {
        Ok(x) => x,
        Err(e) => return format!("builderr:{}", err_kind(&e)),
    };
    let is_mmcs = matches!(shape, Shape::Mmcs);
    let r = observe(|| -> Result<u64, String> {
        let mut r = c.runner();
        let mut pubs2 = pubs.clone();
        let mut privs2 = if is_mmcs { vec![] } else { privs.clone() };
        let e = |x: p3_circuit::CircuitError| format!("{x:?}");
        let (mut set_pub, mut set_priv) = (true, true);
        match plan {
            Plan::WithholdPublic => set_pub = false,
            Plan::WithholdPrivate => set_priv = false,
            Plan::WithholdBoth => {
                set_pub = false;
                set_priv = false;
            }
            Plan::PublicLen(d) => {
                if *d > 0 {
                    pubs2.push(EF::ONE)
                } else if pubs2.pop().is_none() {
                    pubs2.push(EF::ONE)
                }
            }
            Plan::PrivateLen(d) => {
                if *d > 0 {
                    privs2.push(EF::ONE)
                } else if privs2.pop().is_none() {
                    privs2.push(EF::ONE)
                }
            }
            Plan::PublicZeroLen => pubs2.clear(),
            Plan::PrivateZeroLen => privs2.clear(),
            Plan::ConflictPublic(i) => {
                if !pubs2.is_empty() {
                    let k = i % pubs2.len();
                    pubs2[k] += EF::ONE;
                }
            }
            Plan::NonBooleanBit(k, v) => {
                if is_mmcs {
                    pubs2[3 + k % 2] = EF::from_u64(*v);
                }
            }
            Plan::ConflictPrivate(i) => {
                if !privs2.is_empty() {
                    let k = i % privs2.len();
                    privs2[k] += EF::ONE;
                }
            }
            _ => {}
        }
        if set_pub {
            r.set_public_inputs(&pubs2).map_err(e)?;
            match plan {
                Plan::SetPublicTwiceSame => r.set_public_inputs(&pubs2).map_err(e)?,
                Plan::SetPublicTwiceDifferent => {
                    let mut p3v = pubs2.clone();
                    if let Some(x) = p3v.first_mut() {
                        *x += EF::ONE;
                    }
                    r.set_public_inputs(&p3v).map_err(e)?
                }
                _ => {}
            }
        }
        if set_priv {
            r.set_private_inputs(&privs2).map_err(e)?;
            if *plan == Plan::SetPrivateTwiceDifferent {
                let mut p3v = privs2.clone();
                if let Some(x) = p3v.first_mut() {
                    *x += EF::ONE;
                }
                r.set_private_inputs(&p3v).map_err(e)?;
            }
        }
        if is_mmcs {
            let cfg = p3_circuit::ops::Poseidon2Config::KOALA_BEAR_D4_W16;
            let sibs: Vec<Vec<EF>> = privs.chunks(2).map(|c| c.to_vec()).collect();
            for (i, (op, sib)) in ops.iter().zip(sibs.iter()).enumerate() {
                let data = p3_circuit::ops::perm_private_data(cfg, sib.clone());
                match plan {
                    Plan::PrivateDataWithheld if i == 0 => continue,
                    Plan::PrivateDataUnknownTag if i == 0 => r.set_private_data_by_tag("no-such-tag", data).map_err(e)?,
                    Plan::PrivateDataTwice if i == 0 => {
                        r.set_private_data(*op, data).map_err(e)?;
                        r.set_private_data(*op, p3_circuit::ops::perm_private_data(cfg, sib.clone())).map_err(e)?;
                    }
                    Plan::PrivateDataWrongOp if i == 0 => r.set_private_data(p3_circuit::NonPrimitiveOpId(9999), data).map_err(e)?,
                    _ => r.set_private_data(*op, data).map_err(e)?,
                }
            }
        }
        let t = r.run().map_err(e)?;
        Ok(pipe::traces_digest::<U>(&t))
    });
    match r {
        Ok(Ok(d)) => format!("ok:{d:016x}"),
        Ok(Err(e)) => format!("err:{}", err_kind(&e)),
        Err(p) => format!("panic:{}", err_kind(&p)),
    }
}

pub fn cases_for(seed: u64, idx: u64) -> Vec<(String, Shape, Plan)> {
    let mut rng = Rng::new(seed, "C19", idx);
    let mut v = Vec::new();
    let mut shapes: Vec<(String, Shape)> = vec![
        ("perm_on_privates".into(), Shape::PermOnPrivates),
        ("recompose_on_privates".into(), Shape::RecomposeOnPrivates),
        ("perm_on_private_filled_later".into(), Shape::PermOnPrivateFilledLater),
        ("mmcs".into(), Shape::Mmcs),
        ("merged_publics".into(), Shape::MergedPublics),
        ("private_is_public".into(), Shape::PrivateIsPublic),
    ];
    for k in 0..3 {
        let gcfg = GenCfg { max_calls: 25, horner: *rng.pick(&[0, 1, 2]), claim_privates: false, ..GenCfg::default() };
        let p = gprog::generate::<BF, EF>(&mut rng, &gcfg);
        let r = gprog::ref_eval::<BF, EF>(&p);
        if r.sat && !r.precond_violated {
            shapes.push((format!("prog{k}"), Shape::Prog(p)));
        }
    }
    let plans = vec![
        Plan::Control,
        Plan::WithholdPublic,
        Plan::WithholdPrivate,
        Plan::WithholdBoth,
        Plan::PublicLen(1),
        Plan::PublicLen(-1),
        Plan::PrivateLen(1),
        Plan::PrivateLen(-1),
        Plan::PublicZeroLen,
        Plan::PrivateZeroLen,
        Plan::SetPublicTwiceSame,
        Plan::SetPublicTwiceDifferent,
        Plan::SetPrivateTwiceDifferent,
        Plan::ConflictPublic(rng.usize_below(8)),
        Plan::ConflictPrivate(rng.usize_below(8)),
    ];
    for (name, s) in &shapes {
        for p in &plans {
            // the merged-input shapes have their shared slot at input 0
            let p = match (s, p) {
                (Shape::MergedPublics | Shape::PrivateIsPublic, Plan::ConflictPublic(_)) => Plan::ConflictPublic(0),
                (Shape::MergedPublics | Shape::PrivateIsPublic, Plan::ConflictPrivate(_)) => Plan::ConflictPrivate(0),
                _ => p.clone(),
            };
            v.push((name.clone(), s.clone(), p));
        }
        if matches!(s, Shape::Mmcs) {
            for (k, val) in [(0, 2), (1, 2), (0, 7), (1, 2013265920)] {
                v.push((name.clone(), s.clone(), Plan::NonBooleanBit(k, val)));
            }
            for p in [Plan::PrivateDataWithheld, Plan::PrivateDataUnknownTag, Plan::PrivateDataTwice, Plan::PrivateDataWrongOp] {
                v.push((name.clone(), s.clone(), p));
            }
        }
    }
    // the arity-4 Merkle shape: public-input plans, withheld sibling data, and every direction
    // input (low and high bit of each quaternary level) set to a non-boolean value
    let quad = ("mmcs_quad".to_string(), Shape::MmcsQuad);
    for p in [Plan::Control, Plan::WithholdPublic, Plan::PublicLen(1), Plan::PublicLen(-1), Plan::PublicZeroLen, Plan::SetPublicTwiceSame, Plan::SetPublicTwiceDifferent, Plan::ConflictPublic(rng.usize_below(8)), Plan::PrivateDataWithheld] {
        v.push((quad.0.clone(), quad.1.clone(), p));
    }
    for k in 0..4 {
        for val in [2u64, 7] {
            v.push((quad.0.clone(), quad.1.clone(), Plan::NonBooleanBit(k, val)));
        }
    }
    v
}

fn worker(ctx: &Ctx, idx: u64, from: usize) -> i32 {
    foldhash::sim::set_seed(mix(ctx.seed, idx));
    let stdout = std::io::stdout();
    let say = |s: String| {
        let mut o = stdout.lock();
        let _ = writeln!(o, "{s}");
        let _ = o.flush();
    };
    let cases = cases_for(ctx.seed, idx);
    say(format!("TOTAL {}", cases.len()));
    for (i, (name, shape, plan)) in cases.iter().enumerate() {
        if i < from {
            continue;
        }
        say(format!("CASE {i} {name} {}", plan.name()));
        let o = run_case(shape, plan);
        say(format!("DONE {i} {o}"));
    }
    say("END".into());
    0
}

/// Run the worker of one build for shape idx; returns outcome per case ("abort" when the process died).
fn drive_build(exe: &std::path::Path, ctx: &Ctx, idx: u64) -> Result<Vec<(String, String)>, String> {
    let mut results: Vec<(String, String)> = Vec::new();
    let mut from = 0usize;
    let mut total = usize::MAX;
    for _ in 0..200 {
        let cmd = format!("ulimit -v {}; exec '{}' C19 worker={idx} from={from}", 8 * 1024 * 1024, exe.display());
        let mut child = std::process::Command::new("sh")
            .arg("-c")
            .arg(&cmd)
            .env("VERIF_SEED", ctx.seed.to_string())
            .stdout(std::process::Stdio::piped())
            .stderr(std::process::Stdio::null())
            .spawn()
            .map_err(|e| e.to_string())?;
        let rd = BufReader::new(child.stdout.take().unwrap());
        let mut open: Option<(usize, String)> = None;
        let mut ended = false;
        for line in rd.lines().map_while(Result::ok) {
            if let Some(r) = line.strip_prefix("TOTAL ") {
                total = r.trim().parse().unwrap_or(usize::MAX);
            } else if let Some(r) = line.strip_prefix("CASE ") {
                let mut it = r.splitn(2, ' ');
                let i = it.next().and_then(|x| x.parse().ok()).unwrap_or(0);
                open = Some((i, it.next().unwrap_or("").to_string()));
            } else if let Some(r) = line.strip_prefix("DONE ") {
                let mut it = r.splitn(2, ' ');
                let i: usize = it.next().and_then(|x| x.parse().ok()).unwrap_or(0);
                let o = it.next().unwrap_or("").to_string();
                let desc = open.take().map(|x| x.1).unwrap_or_default();
                results.push((desc, o));
                from = i + 1;
            } else if line == "END" {
                ended = true;
            }
        }
        let _ = child.wait();
        if ended {
            return Ok(results);
        }
        match open {
            Some((i, desc)) => {
                results.push((desc, "abort".into()));
                from = i + 1;
            }
            None => return Err("worker died outside a case".into()),
        }
        if from >= total {
            return Ok(results);
        }
    }
    Err("too many respawns".into())
}

fn relchk_exe() -> std::path::PathBuf {
    let exe = std::env::current_exe().unwrap();
    // .../target/release/psim -> .../target/relchk/psim
    exe.parent().unwrap().parent().unwrap().join("relchk").join("psim")
}

pub fn main(ctx: &Ctx) -> i32 {
    if let Some(w) = ctx.args.get("worker") {
        let idx: u64 = w.parse().unwrap_or(0);
        let from: usize = ctx.args.get("from").and_then(|x| x.parse().ok()).unwrap_or(0);
        return worker(ctx, idx, from);
    }
    let rel = std::env::current_exe().unwrap();
    let chk = relchk_exe();
    if !chk.exists() {
        eprintln!("harness error: twin build {} missing (cargo build --profile relchk)", chk.display());
        return 2;
    }
    if let Some(path) = &ctx.replay {
        let body: Value = match std::fs::read_to_string(path).ok().and_then(|s| serde_json::from_str(&s).ok()) {
            Some(b) => b,
            None => {
                eprintln!("harness error: cannot read replay file");
                return 2;
            }
        };
        let idx = body["detail"]["idx"].as_u64().unwrap_or(0);
        let case = body["detail"]["case"].as_str().unwrap_or("").to_string();
        let mut c2 = ctx.clone();
        c2.seed = body["seed"].as_u64().unwrap_or(ctx.seed);
        let a = drive_build(&rel, &c2, idx).unwrap_or_default();
        let b = drive_build(&chk, &c2, idx).unwrap_or_default();
        for ((d1, o1), (_, o2)) in a.iter().zip(b.iter()) {
            if *d1 == case {
                println!("replay: {d1}: optimized={o1} checked={o2}");
                let mut tmp = RunOut::default();
                judge(idx, d1, o1, o2, &a, &mut tmp);
                if !tmp.violations.is_empty() {
                    println!("VIOLATION property={} replay={}", ctx.prop, path.display());
                    return 1;
                }
            }
        }
        println!("replay did not reproduce");
        return 0;
    }
    let runs: u64 = ctx.tier.pick(64, 800);
    let res = crate::core::pool::run_jobs(runs, |idx| {
        let mut out = RunOut::default();
        let a = drive_build(&rel, ctx, idx);
        let b = drive_build(&chk, ctx, idx);
        match (a, b) {
            (Ok(a), Ok(b)) => {
                if a.len() != b.len() {
                    out.count("harness_stream_length_mismatch");
                }
                for ((d1, o1), (d2, o2)) in a.iter().zip(b.iter()) {
                    if d1 != d2 {
                        out.count("harness_stream_desync");
                        break;
                    }
                    out.evals += 1;
                    out.steps += 1;
                    let plan = d1.split(' ').nth(1).unwrap_or("");
                    out.count(&format!("fired_{plan}"));
                    let shape_class = d1.split(' ').next().unwrap_or("").trim_end_matches(char::is_numeric).to_string();
                    out.distinct.insert(crate::core::prng::fnv64(format!("{shape_class}:{plan}").as_bytes()));
                    judge(idx, d1, o1, o2, &a, &mut out);
                }
                if out.samples.is_empty() {
                    out.samples.push(json!({"idx": idx, "cases": a.iter().zip(b.iter()).take(12).map(|((d, o1), (_, o2))| json!({"case": d, "optimized": o1, "checked": o2})).collect::<Vec<_>>()}));
                }
            }
            (a, b) => {
                out.count("harness_worker_failed");
                let _ = (a, b);
            }
        }
        let mut d = crate::core::prng::Digest::new();
        d.u64(out.evals);
        for (k, v) in &out.counters {
            d.str(k);
            d.u64(*v);
        }
        out.digest = d.finish();
        out
    });
    let outs = match res {
        Ok(o) => o,
        Err(e) => {
            eprintln!("harness error: {e}");
            return 2;
        }
    };
    let mut total = RunOut::default();
    for o in outs {
        total.merge(o);
    }
    if total.counters.contains_key("harness_worker_failed") || total.counters.contains_key("harness_stream_desync") {
        eprintln!("harness error: worker streams unusable: {:?}", total.counters);
        return 2;
    }
    crate::core::report::finish(
        ctx,
        &total,
        runs,
        Spec {
            level: "fault_enumeration",
            rule: "one run = seven circuits (private inputs consumed by a Poseidon2 permutation; by the recompose table; by a permutation while the same slot is filled later by another op; a Merkle path check with private sibling data, binary and quaternary (the latter under the public-input plans, withheld sibling data and non-boolean values on every direction input, low and high bit); three seeded G-prog programs with hints) x every input-fault plan (withhold public / private / both, length +1 / -1 / 0, set twice same / different, conflicting public / private value, private data withheld / unknown tag / set twice / wrong op id) + a fault-free control; every case is executed by two builds of the same harness that differ only in debug-assertions, each in a crash-isolated worker; outcomes (ok + trace digest | error class | panic | abort) must be identical, a fault that must fail must not return ok, the control must return ok with identical digests. distinct = distinct (circuit class, plan).",
            exhaustive: true,
            assumptions: vec!["exhaustive over the listed plans for each circuit; G-prog circuits sampled".into(), "the unchecked build can exhibit undefined behaviour: a 'same outcome' observation there is evidence, not proof, of absence of UB (no Miri arm in this check)".into()],
            components_real: vec!["CircuitRunner (set_public_inputs, set_private_inputs, set_private_data[_by_tag], run)", "ExecutionContext::get_witness (checked and unchecked builds)", "Poseidon2 / recompose / MMCS executors"],
            components_stub: vec![],
            not_covered: vec!["Miri on the unchecked path", "D != 4"],
            extra: json!({"twin_builds": ["release (debug-assertions off)", "relchk (debug-assertions on)"]}),
        },
    )
}

/// Oracle for one case given both builds' outcomes.
fn judge(idx: u64, desc: &str, opt: &str, chk: &str, all: &[(String, String)], out: &mut RunOut) {
    let plan = desc.split(' ').nth(1).unwrap_or("");
    let shape = desc.split(' ').next().unwrap_or("");
    let shape_class = shape.trim_end_matches(char::is_numeric);
    let detail = json!({"idx": idx, "case": desc, "optimized": opt, "checked": chk});
    if opt == "abort" || chk == "abort" {
        out.violate(format!("abort:{shape_class}:{plan}"), format!("{desc}: a build crashed (optimized={opt}, checked={chk})"), detail);
        return;
    }
    if opt.starts_with("panic") || chk.starts_with("panic") {
        out.violate(format!("panic:{shape_class}:{plan}"), format!("{desc}: panic instead of an error (optimized={opt}, checked={chk})"), detail);
        return;
    }
    if opt != chk {
        let (a, b) = (opt.split(':').next().unwrap_or(""), chk.split(':').next().unwrap_or(""));
        let kind = if a != b { format!("{a}_vs_{b}") } else { "different_error".to_string() };
        out.violate(format!("builds_differ:{kind}:{shape_class}:{plan}"), format!("{desc}: optimized build -> {opt}, checked build -> {chk}"), detail);
        return;
    }
    // both agree: is the common outcome acceptable?
    let control_ok = all.iter().any(|(d, o)| d.starts_with(shape) && d.ends_with(" control") && o.starts_with("ok"));
    let must_fail = match plan {
        "withholdpublic" | "publiczerolen" if shape_class == "mmcs_quad" => Some(true),
        "withholdpublic" | "withholdprivate" | "withholdboth" | "publiczerolen" | "privatezerolen" => None, // depends on counts: decided below
        p if p.starts_with("public_len") || p.starts_with("private_len") => Some(true),
        "privatedatawithheld" | "privatedataunknowntag" | "privatedatatwice" | "privatedatawrongop" => Some(true),
        "control" | "setpublictwicesame" => Some(false),
        // every hand-built shape has at least one public input; setting it twice with different
        // values is a conflict whatever consumes it
        "setpublictwicedifferent" if !shape.starts_with("prog") => Some(true),
        "setprivatetwicedifferent" if !shape.starts_with("prog") && !shape_class.starts_with("mmcs") && shape_class != "merged_publics" => Some(true),
        "nonbooleanbit" => Some(true),
        // one slot, two inputs: a value changed in either of them conflicts with the other
        "conflict_public" | "conflict_private" if shape_class == "merged_publics" || shape_class == "private_is_public" => {
            if plan == "conflict_private" && shape_class == "merged_publics" { None } else { Some(true) }
        }
        _ => None,
    };
    match must_fail {
        Some(true) if opt.starts_with("ok") => out.violate(format!("accepted:{shape_class}:{plan}"), format!("{desc}: both builds report success"), detail.clone()),
        Some(false) if !opt.starts_with("ok") && control_ok => out.violate(format!("control_failed:{shape_class}:{plan}"), format!("{desc}: {opt}"), detail.clone()),
        _ => {}
    }
    // a run that succeeds although inputs were withheld must have derived every withheld value:
    // its traces are then the control's traces; any other successful outcome was computed from
    // values nobody supplied
    if matches!(plan, "withholdpublic" | "withholdprivate" | "withholdboth" | "publiczerolen" | "privatezerolen") && opt.starts_with("ok") {
        let control = all.iter().find(|(d, _)| d.starts_with(shape) && d.ends_with(" control")).map(|(_, o)| o.clone());
        if let Some(c) = control {
            if c.starts_with("ok") && c != *opt {
                out.violate(format!("unsafe_success:{shape_class}:{plan}"), format!("{desc}: both builds report success with traces that differ from the fault-free control's ({opt} vs {c}): the run went on from values nobody supplied"), detail.clone());
            }
        }
    }
    if plan == "control" && !opt.starts_with("ok") && !shape.starts_with("prog") {
        out.violate(format!("control_failed:{shape_class}"), format!("{desc}: fault-free control does not run: {opt}"), detail);
    }
}
