//! C04 — an accepted circuit proof attests a satisfying assignment; C11 — each table's constraints
//! accept exactly the rows its operation allows.
//! Byzantine prover at matrix depth (d4, hook H2): after an honest run, one cell of one table matrix
//! is altered (or an operand cell is altered and the row's `out` recomputed so the row relation
//! still holds, or two rows are swapped, or a constant is substituted and propagated), the real
//! prover commits and proves the forged matrices, the real verifier decides. Ground truth is
//! *computed* per case by `tabeval` (relations + constants + bus agreement), not assumed.
//! C11 evaluates the same faults at the constraint level (p3's DebugConstraintBuilder, no proof)
//! against the row-relation oracle.

use std::sync::Arc;

use p3_circuit::{Circuit, Op};
use p3_field::{BasedVectorSpace, PrimeCharacteristicRing, PrimeField64};
use p3_matrix::Matrix;
use p3_matrix::dense::RowMajorMatrix;
use serde_json::{Value, json};

use crate::core::prng::{Rng, mix};
use crate::core::report::{Ctx, RunOut, Spec, Tier};
use crate::gprog::{self, GenCfg, Program};
use crate::pipe;
use crate::tabeval;
use crate::uni::{BuilderOpts, CircuitUni, KeyInfo, ProverCfg, Tamper, capture_matrices};

#[derive(Clone, Debug, serde::Serialize, serde::Deserialize)]
pub struct CellFault {
    /// "cell_flip", "cell_local_resolve", "row_swap", "const_substitute"
    pub kind: String,
    pub table: usize,
    pub row: usize,
    pub col: usize,
    /// value added to the cell (canonical)
    pub delta: u64,
    /// for row_swap: the other row
    pub row2: usize,
}

pub struct Honest<U: CircuitUni> {
    pub circuit: Circuit<U::EF>,
    pub traces: p3_circuit::tables::Traces<U::EF>,
    pub keys: U::Keys,
    pub info: KeyInfo,
    pub mats: Vec<RowMajorMatrix<U::BF>>,
    pub cfg: ProverCfg,
}

pub fn honest<U: CircuitUni>(p: &Program, cfg: &ProverCfg, hash_seed: u64) -> Result<Honest<U>, String> {
    foldhash::sim::set_seed(hash_seed);
    let circuit = pipe::build_circuit::<U>(p, BuilderOpts::default(), false).map_err(|f| format!("build: {}", f.msg))?;
    let traces = pipe::run_circuit::<U>(&circuit, p).map_err(|f| format!("run: {}", f.msg))?;
    let (keys, info) = pipe::keygen::<U>(&circuit, cfg).map_err(|f| format!("keygen: {}", f.msg))?;
    let mats = match crate::core::pool::observe(|| capture_matrices::<U>(&keys, &traces, cfg)) {
        Ok(Ok(m)) => m,
        Ok(Err(e)) => return Err(format!("prove: {e}")),
        Err(p) => return Err(format!("prove panic: {p}")),
    };
    Ok(Honest { circuit, traces, keys, info, mats, cfg: cfg.clone() })
}

/// Apply the fault to a copy of the honest matrices. None if it does not change anything.
pub fn forge<U: CircuitUni>(h: &Honest<U>, f: &CellFault) -> Option<Vec<RowMajorMatrix<U::BF>>> {
    let mut m = h.mats.clone();
    let d = <U::EF as BasedVectorSpace<U::BF>>::DIMENSION;
    match f.kind.as_str() {
        "cell_flip" => {
            let t = m.get_mut(f.table)?;
            let w = t.width();
            let cell = t.values.get_mut(f.row * w + f.col)?;
            *cell += U::BF::from_u64(f.delta.max(1));
        }
        "row_swap" => {
            let t = m.get_mut(f.table)?;
            let w = t.width();
            if f.row == f.row2 || (f.row2 + 1) * w > t.values.len() || (f.row + 1) * w > t.values.len() {
                return None;
            }
            for c in 0..w {
                t.values.swap(f.row * w + c, f.row2 * w + c);
            }
            if t.values == h.mats[f.table].values {
                return None;
            }
        }
        "cell_local_resolve" => {
            // ALU only: alter one limb of operand a/b/c of one op, then recompute that op's `out`
            // so that the row relation still holds
            if f.table != 2 {
                return None;
            }
            let lay = tabeval::alu_layout(m[2].width(), d, h.cfg.horner_k, &h.info);
            let w = m[2].width();
            let lane = f.col / (4 * d);
            if lane >= lay.lanes {
                return None;
            }
            let opi = f.row * lay.lanes + lane;
            let r13 = h.info.primitive_cols[2].chunks_exact(13).nth(opi)?;
            if r13[0] == 0 {
                return None;
            }
            let kind = tabeval::kind_of(r13);
            let within = f.col % (4 * d);
            if within >= 3 * d || kind == "bool" || kind == "horner" {
                return None;
            }
            let base = f.row * w + lane * 4 * d;
            m[2].values[base + within] += U::BF::from_u64(f.delta.max(1));
            let g = |k: usize| -> U::EF { U::EF::from_basis_coefficients_slice(&m[2].values[base + k * d..base + (k + 1) * d]).unwrap() };
            let (a, b, c) = (g(0), g(1), g(2));
            let out: U::EF = match kind {
                "add" => a + b,
                "mul" => a * b,
                _ => a * b + c,
            };
            let oc: Vec<U::BF> = <U::EF as BasedVectorSpace<U::BF>>::as_basis_coefficients_slice(&out).to_vec();
            m[2].values[base + 3 * d..base + 4 * d].copy_from_slice(&oc);
            if m[2].values == h.mats[2].values {
                return None;
            }
        }
        _ => return None,
    }
    Some(m)
}

pub struct CaseOut {
    pub accepted: bool,
    pub reject_stage: String,
    pub ground_invalid: Option<String>,
    pub constraints_fail: bool,
}

pub fn prove_forged<U: CircuitUni>(h: &Honest<U>, forged: Vec<RowMajorMatrix<U::BF>>) -> (bool, String) {
    let shared = Arc::new(forged);
    let s2 = shared.clone();
    let tamper: Tamper<U::BF> = Box::new(move |m| {
        for (dst, src) in m.iter_mut().zip(s2.iter()) {
            if dst.values.len() == src.values.len() {
                dst.values.copy_from_slice(&src.values);
            }
        }
    });
    let r = (|| -> Result<(), pipe::Fail> {
        let proof = pipe::prove::<U>(&h.keys, &h.traces, &h.cfg, Some(tamper))?;
        pipe::verify::<U>(&proof, &h.cfg, &h.info.commitment)
    })();
    match r {
        Ok(()) => (true, String::new()),
        Err(f) => (false, f.stage.name().to_string()),
    }
}

fn table_name(t: usize) -> &'static str {
    ["const", "public", "alu"].get(t).copied().unwrap_or("npo")
}

fn col_class<U: CircuitUni>(h: &Honest<U>, f: &CellFault) -> String {
    let d = <U::EF as BasedVectorSpace<U::BF>>::DIMENSION;
    match f.table {
        2 => {
            let lay = tabeval::alu_layout(h.mats[2].width(), d, h.cfg.horner_k, &h.info);
            let cls = tabeval::alu_col_class(f.col, d, lay.lanes);
            let lane = f.col / (4 * d);
            let opi = f.row * lay.lanes + lane;
            let kind = h.info.primitive_cols[2].chunks_exact(13).nth(opi).filter(|r| r[0] != 0 && cls != "extra").map(tabeval::kind_of).unwrap_or("pad");
            format!("alu.{kind}.{cls}")
        }
        t => format!("{}.value", table_name(t)),
    }
}

/// Enumerate cell faults for the honest matrices: every cell of every active row + one padding row.
pub fn enumerate<U: CircuitUni>(h: &Honest<U>, rng: &mut Rng, tier: Tier) -> Vec<CellFault> {
    let d = <U::EF as BasedVectorSpace<U::BF>>::DIMENSION;
    let mut v = Vec::new();
    let active_rows = |t: usize| -> usize {
        match t {
            0 => (h.info.primitive_cols[0].len() / 2).max(1),
            1 => {
                let lanes = (h.mats[1].width() / d).max(1);
                (h.info.primitive_cols[1].len() / 2).div_ceil(lanes).max(1)
            }
            _ => {
                let lay = tabeval::alu_layout(h.mats[2].width(), d, h.cfg.horner_k, &h.info);
                lay.active_ops.div_ceil(lay.lanes).max(1)
            }
        }
    };
    for t in 0..3usize {
        let rows = (active_rows(t) + 1).min(h.mats[t].height());
        let w = h.mats[t].width();
        for r in 0..rows {
            for c in 0..w {
                let delta = match rng.below(3) {
                    0 => 1,
                    1 => U::BF::ORDER_U64 - 1,
                    _ => 1 + rng.below(U::BF::ORDER_U64 - 1),
                };
                v.push(CellFault { kind: "cell_flip".into(), table: t, row: r, col: c, delta, row2: 0 });
                if t == 2 && (tier == Tier::Thorough || rng.chance(1, 3)) {
                    v.push(CellFault { kind: "cell_local_resolve".into(), table: t, row: r, col: c, delta, row2: 0 });
                }
            }
        }
        for _ in 0..tier.pick(3, 10) {
            let (r1, r2) = (rng.usize_below(rows), rng.usize_below(rows));
            v.push(CellFault { kind: "row_swap".into(), table: t, row: r1, col: 0, delta: 0, row2: r2 });
        }
    }
    v
}

pub fn gen_program<U: CircuitUni>(rng: &mut Rng, tier: Tier) -> Program {
    let gcfg = GenCfg {
        min_calls: 4,
        max_calls: tier.pick(14, 30),
        hints: false,
        horner: 0,
        creator_aliasing: false,
        claim_privates: true,
        div: true,
        recompose_npo: false,
    };
    gprog::generate::<U::BF, U::EF>(rng, &gcfg)
}

/// const_substitute_propagated (d3): change one `Op::Const` value in a clone of the circuit, run
/// honestly with the new constant, prove with the ORIGINAL keys.
pub fn const_substitute<U: CircuitUni>(h: &Honest<U>, p: &Program, which: usize, out: &mut RunOut) -> Option<(String, String)> {
    let mut c2 = h.circuit.clone();
    let mut k = 0usize;
    let mut changed = false;
    for op in c2.ops.iter_mut() {
        if let Op::Const { val, .. } = op {
            if k == which && *val != U::EF::ZERO {
                *val += U::EF::ONE;
                changed = true;
            }
            k += 1;
        }
    }
    if !changed {
        return None;
    }
    let traces2 = pipe::run_circuit::<U>(&c2, p).ok()?;
    out.count("fired_const_substitute_propagated");
    let r = (|| -> Result<(), pipe::Fail> {
        let proof = pipe::prove::<U>(&h.keys, &traces2, &h.cfg, None)?;
        pipe::verify::<U>(&proof, &h.cfg, &h.info.commitment)
    })();
    if r.is_ok() {
        return Some((
            "const_substitute_propagated".to_string(),
            format!("constant #{which} replaced by constant+1 and propagated through an honest run; proof made with the original verifying data is ACCEPTED: the committed values do not carry the circuit's constants"),
        ));
    }
    out.count("const_substitute_rejected");
    None
}

pub fn one_run<U: CircuitUni>(ctx: &Ctx, prop: &str, idx: u64, out: &mut RunOut) {
    let mut rng = Rng::new(ctx.seed, "C04", idx);
    let p = gen_program::<U>(&mut rng, ctx.tier);
    let r = gprog::ref_eval::<U::BF, U::EF>(&p);
    if !r.sat || r.precond_violated {
        out.count("generator_unsat_skipped");
        return;
    }
    let mut cfg = ProverCfg::swarm(&mut rng, BuilderOpts::default());
    cfg.min_height = cfg.min_height.min(8);
    let hs = mix(ctx.seed, idx);
    let h = match honest::<U>(&p, &cfg, hs) {
        Ok(h) => h,
        Err(e) => {
            out.count(&format!("honest_pipeline_failed_{}", e.split(':').next().unwrap_or("x").replace(' ', "_")));
            return;
        }
    };
    // control: honest matrices are valid by ground truth and by constraints, and the proof verifies
    let gt0 = tabeval::eval_tables::<U::BF, U::EF>(&h.circuit, &h.info, &h.mats, cfg.horner_k, true);
    let cc0 = U::constraint_check(&h.keys, &h.mats);
    out.evals += 1;
    if let Some(why) = gt0 {
        out.violate("oracle_rejects_honest_trace".to_string(), format!("harness self-check: ground-truth evaluator rejects the honest matrices: {why}"), json!({"universe": U::NAME, "program": p, "cfg": cfg.to_json(), "hash_seed": hs}));
        return;
    }
    if let Some((t, Some((row, msg)))) = cc0.iter().enumerate().find(|(_, x)| x.is_some()).map(|(t, x)| (t, x.clone())) {
        out.violate(
            format!("honest_row_fails_constraints:{}", table_name(t)),
            format!("relation holds (honest trace) but the {} table's constraints fail at row {row}: {}", table_name(t), msg.chars().take(200).collect::<String>()),
            json!({"universe": U::NAME, "program": p, "cfg": cfg.to_json(), "hash_seed": hs}),
        );
        return;
    }
    if out.samples.is_empty() {
        out.samples.push(json!({"universe": U::NAME, "program": p, "cfg": cfg.to_json(), "matrix_shapes": h.mats.iter().map(|m| (m.height(), m.width())).collect::<Vec<_>>()}));
    }
    let faults = enumerate::<U>(&h, &mut rng, ctx.tier);
    for f in faults {
        let Some(forged) = forge::<U>(&h, &f) else {
            out.count(&format!("not_fired_{}", f.kind));
            continue;
        };
        out.count(&format!("fired_{}", f.kind));
        out.evals += 1;
        out.steps += 1;
        let class = col_class::<U>(&h, &f);
        out.distinct.insert(crate::core::prng::fnv64(format!("{}:{}:{class}", U::NAME, f.kind).as_bytes()));
        let gt = tabeval::eval_tables::<U::BF, U::EF>(&h.circuit, &h.info, &forged, cfg.horner_k, true);
        if prop == "C11" {
            // constraint level: relation (row relation only, no bus) vs constraints of that table
            let cc = U::constraint_check(&h.keys, &forged);
            let fails = cc.get(f.table).map(|x| x.is_some()).unwrap_or(false);
            let rel_invalid = row_relation_invalid::<U>(&h, &forged, &f);
            match (rel_invalid, fails) {
                (true, false) => out.violate(
                    format!("constraints_accept_illegal_row:{}:{class}", f.kind),
                    format!("{} of {} table row {} col {} ({class}): the op's relation fails on the row but every constraint of the table vanishes", f.kind, table_name(f.table), f.row, f.col),
                    json!({"universe": U::NAME, "program": p, "cfg": cfg.to_json(), "hash_seed": hs, "fault": f}),
                ),
                (false, true) => out.count("relation_holds_but_constraints_fail_dontcare_cell"),
                (true, true) => out.count("illegal_row_rejected_by_constraints"),
                (false, false) => out.count("legal_row_accepted_by_constraints"),
            }
            continue;
        }
        let (accepted, stage) = prove_forged::<U>(&h, forged);
        if accepted {
            out.count("forged_accepted");
            match gt {
                Some(why) => out.violate(
                    format!("{}:{class}", f.kind),
                    format!("{} on {} table row {} col {} ({class}) is ACCEPTED by the verifier although the committed values are invalid: {why}", f.kind, table_name(f.table), f.row, f.col),
                    json!({"universe": U::NAME, "program": p, "cfg": cfg.to_json(), "hash_seed": hs, "fault": f}),
                ),
                None => out.count("forged_accepted_trace_still_valid"),
            }
        } else {
            out.count(&format!("forged_rejected_at_{stage}"));
            if gt.is_none() {
                out.count("valid_alternative_trace_rejected");
            }
        }
    }
    if prop == "C04" {
        let nconst = h.circuit.ops.iter().filter(|o| matches!(o, Op::Const { .. })).count();
        for which in 0..nconst.min(3) {
            out.evals += 1;
            if let Some((k, c)) = const_substitute::<U>(&h, &p, which, out) {
                out.violate(k, c, json!({"universe": U::NAME, "program": p, "cfg": cfg.to_json(), "hash_seed": hs, "fault": {"kind": "const_substitute", "table": 0, "row": which, "col": 0, "delta": 1, "row2": 0}}));
            }
        }
    }
}

/// Row-relation oracle for the faulted table only (C11): does the altered row (or its neighbours
/// for swaps) violate the op's defining relation / the constant it must carry?
fn row_relation_invalid<U: CircuitUni>(h: &Honest<U>, forged: &[RowMajorMatrix<U::BF>], f: &CellFault) -> bool {
    // evaluate with the bus switched off: relations + constants only
    let mut info = h.info.clone();
    for ch in info.primitive_cols[0].chunks_exact_mut(2) {
        ch[0] = 0;
    }
    for ch in info.primitive_cols[1].chunks_exact_mut(2) {
        ch[0] = 0;
    }
    for r in info.primitive_cols[2].chunks_exact_mut(13) {
        r[9] = 0;
        r[10] = 0;
        r[11] = 0;
        r[12] = 0;
    }
    let _ = f;
    // Const values are preprocessed-free main values: a flipped constant is not a *row relation*
    // violation of ConstAir (the table has no constraints by design: see C04), so exclude it here.
    let mut c2 = h.circuit.clone();
    c2.ops.retain(|o| !matches!(o, Op::Const { .. }));
    tabeval::eval_tables::<U::BF, U::EF>(&c2, &info, forged, h.cfg.horner_k, false).is_some()
}

pub fn replay<U: CircuitUni>(ctx: &Ctx, body: &Value) -> i32 {
    let d = &body["detail"];
    let p: Program = match serde_json::from_value(d["program"].clone()) {
        Ok(p) => p,
        Err(e) => {
            eprintln!("harness error: bad replay file: {e}");
            return 2;
        }
    };
    let cfg = ProverCfg::from_json(&d["cfg"]);
    let hs = d["hash_seed"].as_u64().unwrap_or(1);
    let h = match honest::<U>(&p, &cfg, hs) {
        Ok(h) => h,
        Err(e) => {
            println!("replay: honest pipeline failed: {e}");
            return 0;
        }
    };
    let key = body["key"].as_str().unwrap_or("");
    if d["fault"].is_null() {
        // control-arm violation
        let gt0 = tabeval::eval_tables::<U::BF, U::EF>(&h.circuit, &h.info, &h.mats, cfg.horner_k, true);
        let cc0 = U::constraint_check(&h.keys, &h.mats);
        println!("replay: ground truth on honest = {gt0:?}; constraints = {:?}", cc0.iter().map(|x| x.as_ref().map(|y| y.0)).collect::<Vec<_>>());
        if gt0.is_some() || cc0.iter().any(|x| x.is_some()) {
            println!("VIOLATION property={} replay={}", ctx.prop, ctx.replay.as_ref().unwrap().display());
            return 1;
        }
        return 0;
    }
    let f: CellFault = serde_json::from_value(d["fault"].clone()).unwrap();
    if f.kind == "const_substitute" {
        let mut tmp = RunOut::default();
        return match const_substitute::<U>(&h, &p, f.row, &mut tmp) {
            Some((k, c)) => {
                println!("VIOLATION property={} replay={}", ctx.prop, ctx.replay.as_ref().unwrap().display());
                println!("  key={k} clause={c}");
                1
            }
            None => {
                println!("replay did not reproduce");
                0
            }
        };
    }
    let Some(forged) = forge::<U>(&h, &f) else {
        println!("replay: fault did not fire");
        return 0;
    };
    let gt = tabeval::eval_tables::<U::BF, U::EF>(&h.circuit, &h.info, &forged, cfg.horner_k, true);
    if ctx.prop == "C11" {
        let cc = U::constraint_check(&h.keys, &forged);
        let fails = cc.get(f.table).map(|x| x.is_some()).unwrap_or(false);
        let rel = row_relation_invalid::<U>(&h, &forged, &f);
        println!("replay: relation_invalid={rel} constraints_fail={fails}");
        if rel && !fails {
            println!("VIOLATION property={} replay={}", ctx.prop, ctx.replay.as_ref().unwrap().display());
            return 1;
        }
        return 0;
    }
    let (acc, stage) = prove_forged::<U>(&h, forged);
    println!("replay: accepted={acc} rejected_at={stage} ground_truth_invalid={gt:?} key={key}");
    if acc && gt.is_some() {
        println!("VIOLATION property={} replay={}", ctx.prop, ctx.replay.as_ref().unwrap().display());
        1
    } else {
        println!("replay did not reproduce");
        0
    }
}

pub fn main(ctx: &Ctx) -> i32 {
    let prop = ctx.prop.clone();
    if let Some(path) = &ctx.replay {
        let body: Value = match std::fs::read_to_string(path).ok().and_then(|s| serde_json::from_str(&s).ok()) {
            Some(b) => b,
            None => {
                eprintln!("harness error: cannot read replay file");
                return 2;
            }
        };
        return if body["detail"]["universe"].as_str() == Some("U-BB4") { replay::<crate::uni::Bb4>(ctx, &body) } else { replay::<crate::uni::Kb4>(ctx, &body) };
    }
    let runs: u64 = if prop == "C11" { ctx.tier.pick(3000, 60000) } else { ctx.tier.pick(64, 800) };
    let res = crate::core::pool::run_jobs(runs, |idx| {
        let mut out = RunOut::default();
        if idx % 2 == 0 {
            one_run::<crate::uni::Kb4>(ctx, &prop, idx, &mut out);
        } else {
            one_run::<crate::uni::Bb4>(ctx, &prop, idx, &mut out);
        }
        let mut d = crate::core::prng::Digest::new();
        d.u64(out.evals);
        for (k, v) in &out.counters {
            d.str(k);
            d.u64(*v);
        }
        out.digest = d.finish();
        out
    });
    let outs = match res {
        Ok(o) => o,
        Err(e) => {
            eprintln!("harness error: {e}");
            return 2;
        }
    };
    let mut total = RunOut::default();
    for o in outs {
        total.merge(o);
    }
    let rule = if prop == "C11" {
        "one run = one seeded primitive circuit (add, sub, mul, div, mul_add, bool checks, selects, connects; extension degree 4, BabyBear/KoalaBear; lanes in {1,2,3,4,8}; Horner packing factor K in {2..5} for the extra columns); the honest main matrices (captured from the real prover through hook H2) must satisfy every table constraint; then every cell of every active row and one padding row of the Const, Public and ALU tables is altered (+1, -1 or random), plus local re-solves and row swaps, and p3's DebugConstraintBuilder evaluates the table's AIR on the forged matrix; oracle: the row-relation evaluator over the field extension (relation fails and constraints vanish = violation; honest row failing constraints = violation). distinct = distinct (universe, fault kind, op kind, column class)."
    } else {
        "one run = one seeded primitive circuit + packing draw, honest run, matrices captured through hook H2; byzantine prover alters every cell of every active row and one padding row of every table (cell_flip), re-solves a row locally after altering an operand (cell_local_resolve), swaps rows, or substitutes a constant and propagates it; each forged trace is committed and proven by the real prover and checked by the commitment-binding verifier; ground truth (relations, constants, bus agreement) is computed per case; violation = accepted and ground truth invalid. distinct = distinct (universe, fault kind, op kind, column class)."
    };
    crate::core::report::finish(
        ctx,
        &total,
        runs,
        Spec {
            level: "fault_enumeration",
            rule,
            exhaustive: true,
            assumptions: vec![
                "exhaustive over single cells of the sampled circuits' active rows; circuits and packings are sampled".into(),
                "ground truth decodes the primitive tables only; circuits here contain no Horner steps and no non-primitive tables (those are faulted in C06/C12)".into(),
                "release profile: p3's debug constraint checks are compiled out, so an invalid trace yields a proof".into(),
            ],
            components_real: vec!["CircuitRunner", "trace_to_matrix of every primitive table", "prove_all_tables (commit, quotient, FRI)", "verify_all_tables", "AluAir/ConstAir/PublicAir::eval via DebugConstraintBuilder (C11)"],
            components_stub: vec!["hook H2 overwrites the matrices before commitment (the fault)"],
            not_covered: vec!["Poseidon / recompose table cells (C06, C12 fault their inputs/outputs instead)", "packed Horner rows", "D != 4"],
            extra: json!({}),
        },
    )
}
