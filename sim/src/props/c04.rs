//! C04 — an accepted circuit proof attests a satisfying assignment; C11 — each table's constraints
//! accept exactly the rows its operation allows.
//! Byzantine prover at matrix depth (d4, hook H2): after an honest run, one cell of one table matrix
//! is altered (or an operand cell is altered and the row's `out` recomputed so the row relation
//! still holds, or two rows are swapped, or a constant is substituted and propagated), the real
//! prover commits and proves the forged matrices, the real verifier decides. Ground truth is
//! *computed* per case by `tabeval` (relations + constants + bus agreement), not assumed.
//! C11 evaluates the same faults at the constraint level (p3's DebugConstraintBuilder, no proof)
//! against the row-relation oracle.

use std::sync::Arc;

use p3_circuit::{Circuit, Op};
use p3_field::{BasedVectorSpace, PrimeCharacteristicRing, PrimeField64};
use p3_matrix::Matrix;
use p3_matrix::dense::RowMajorMatrix;
use serde_json::{Value, json};

use crate::core::prng::{Rng, mix};
use crate::core::report::{Ctx, RunOut, Spec, Tier};
use crate::gprog::{self, GenCfg, Program};
use crate::pipe;
use crate::tabeval;
use crate::uni::{BuilderOpts, CircuitUni, KeyInfo, ProverCfg, Tamper, capture_matrices};

#[derive(Clone, Debug, serde::Serialize, serde::Deserialize)]
pub struct CellFault {
    /// "cell_flip", "cell_local_resolve", "row_swap", "const_substitute",
    /// "horner_chain_acc_forge" (row = first Horner row of a chain: the lane-0 `out` of the inactive
    /// row above it is altered and the whole chain recomputed from that accumulator),
    /// "horner_backsolve" (row = packed Horner row of arity >= 3, col = first forged intermediate
    /// slot: `out` is altered and the intermediates from that slot on are solved backwards so that
    /// every later step still holds; the rest of the chain is recomputed)
    pub kind: String,
    pub table: usize,
    pub row: usize,
    pub col: usize,
    /// value added to the cell (canonical)
    pub delta: u64,
    /// for row_swap: the other row
    pub row2: usize,
}

pub struct Honest<U: CircuitUni> {
    pub circuit: Circuit<U::EF>,
    pub traces: p3_circuit::tables::Traces<U::EF>,
    pub keys: U::Keys,
    pub info: KeyInfo,
    pub mats: Vec<RowMajorMatrix<U::BF>>,
    pub alu_prep: RowMajorMatrix<U::BF>,
    pub dec: tabeval::Decoded,
    pub cfg: ProverCfg,
}

pub fn honest<U: CircuitUni>(p: &Program, cfg: &ProverCfg, hash_seed: u64) -> Result<Honest<U>, String> {
    foldhash::sim::set_seed(hash_seed);
    let circuit = pipe::build_circuit::<U>(p, BuilderOpts::default(), false).map_err(|f| format!("build: {}", f.msg))?;
    let traces = pipe::run_circuit::<U>(&circuit, p).map_err(|f| format!("run: {}", f.msg))?;
    let (keys, info) = pipe::keygen::<U>(&circuit, cfg).map_err(|f| format!("keygen: {}", f.msg))?;
    let mats = match crate::core::pool::observe(|| capture_matrices::<U>(&keys, &traces, cfg)) {
        Ok(Ok(m)) => m,
        Ok(Err(e)) => return Err(format!("prove: {e}")),
        Err(p) => return Err(format!("prove panic: {p}")),
    };
    let alu_prep = U::alu_prep(&keys).ok_or("no ALU preprocessed matrix")?;
    let d = <U::EF as BasedVectorSpace<U::BF>>::DIMENSION;
    let dec = tabeval::decode::<U::BF>(&info, &alu_prep, &mats, d, cfg.horner_k).map_err(|e| format!("decode: {e}"))?;
    Ok(Honest { circuit, traces, keys, info, mats, alu_prep, dec, cfg: cfg.clone() })
}

/// Apply the fault to a copy of the honest matrices. None if it does not change anything.
pub fn forge<U: CircuitUni>(h: &Honest<U>, f: &CellFault) -> Option<Vec<RowMajorMatrix<U::BF>>> {
    let mut m = h.mats.clone();
    let d = <U::EF as BasedVectorSpace<U::BF>>::DIMENSION;
    match f.kind.as_str() {
        "cell_flip" => {
            let t = m.get_mut(f.table)?;
            let w = t.width();
            let cell = t.values.get_mut(f.row * w + f.col)?;
            *cell += U::BF::from_u64(f.delta.max(1));
        }
        "row_swap" => {
            let t = m.get_mut(f.table)?;
            let w = t.width();
            if f.row == f.row2 || (f.row2 + 1) * w > t.values.len() || (f.row + 1) * w > t.values.len() {
                return None;
            }
            for c in 0..w {
                t.values.swap(f.row * w + c, f.row2 * w + c);
            }
            if t.values == h.mats[f.table].values {
                return None;
            }
        }
        "cell_local_resolve" => {
            // ALU only: alter one limb of operand a/b/c of one op, then recompute that op's `out`
            // so that the row relation still holds
            if f.table != 2 {
                return None;
            }
            let g = h.dec.geom;
            let w = m[2].width();
            let lane = f.col / (4 * d);
            if lane >= g.lanes {
                return None;
            }
            let kind = h.dec.ops.iter().find(|o| o.row == f.row && o.lane == lane)?.kind;
            let within = f.col % (4 * d);
            if within >= 3 * d || kind == "bool" || kind == "horner" {
                return None;
            }
            let base = f.row * w + lane * 4 * d;
            m[2].values[base + within] += U::BF::from_u64(f.delta.max(1));
            let g = |k: usize| -> U::EF { U::EF::from_basis_coefficients_slice(&m[2].values[base + k * d..base + (k + 1) * d]).unwrap() };
            let (a, b, c) = (g(0), g(1), g(2));
            let out: U::EF = match kind {
                "add" => a + b,
                "mul" => a * b,
                _ => a * b + c,
            };
            let oc: Vec<U::BF> = <U::EF as BasedVectorSpace<U::BF>>::as_basis_coefficients_slice(&out).to_vec();
            m[2].values[base + 3 * d..base + 4 * d].copy_from_slice(&oc);
            if m[2].values == h.mats[2].values {
                return None;
            }
        }
        "limb_pair" => {
            // two limbs of one operand move in opposite directions (+delta on `col`, -delta on
            // `row2`): sums and other linear combinations of the limbs stay what they were
            let t = m.get_mut(f.table)?;
            let w = t.width();
            if f.col == f.row2 || f.col >= w || f.row2 >= w || (f.row + 1) * w > t.values.len() {
                return None;
            }
            let dlt = U::BF::from_u64(f.delta.max(1));
            t.values[f.row * w + f.col] += dlt;
            t.values[f.row * w + f.row2] -= dlt;
        }
        "slot_reassign" => {
            // a witness value changed without propagating it: every bus participant of slot `row`
            // gets the new value (delta 0 = boolean flip), no dependent row is recomputed
            let cells = h.dec.bus.get(&(f.row as u64))?;
            let first = cells.first()?;
            let old = rd::<U>(&m[first.table], first.row, first.col);
            let new = if f.delta == 0 {
                if old == U::EF::ZERO {
                    U::EF::ONE
                } else if old == U::EF::ONE {
                    U::EF::ZERO
                } else {
                    old + U::EF::ONE
                }
            } else {
                old + U::EF::from(U::BF::from_u64(f.delta))
            };
            for c in cells {
                wr::<U>(&mut m[c.table], c.row, c.col, new);
            }
        }
        "horner_chain_acc_forge" | "horner_backsolve" => {
            if !forge_horner::<U>(h, f, &mut m) || m[2].values == h.mats[2].values {
                return None;
            }
        }
        _ => return None,
    }
    Some(m)
}

fn rd<U: CircuitUni>(m: &RowMajorMatrix<U::BF>, row: usize, col: usize) -> U::EF {
    let d = <U::EF as BasedVectorSpace<U::BF>>::DIMENSION;
    let s = row * m.width() + col;
    U::EF::from_basis_coefficients_slice(&m.values[s..s + d]).unwrap()
}

fn wr<U: CircuitUni>(m: &mut RowMajorMatrix<U::BF>, row: usize, col: usize, v: U::EF) {
    let d = <U::EF as BasedVectorSpace<U::BF>>::DIMENSION;
    let s = row * m.width() + col;
    m.values[s..s + d].copy_from_slice(<U::EF as BasedVectorSpace<U::BF>>::as_basis_coefficients_slice(&v));
}

/// Write `v` to every other bus participant of the slot the given ALU cell belongs to.
fn propagate<U: CircuitUni>(h: &Honest<U>, m: &mut [RowMajorMatrix<U::BF>], row: usize, col: usize, v: U::EF) {
    for cells in h.dec.bus.values() {
        if cells.iter().any(|c| c.table == 2 && c.row == row && c.col == col) {
            for c in cells {
                wr::<U>(&mut m[c.table], c.row, c.col, v);
            }
        }
    }
}

/// (a_t, c_t) of step t of a Horner row
fn step_ac<U: CircuitUni>(g: &tabeval::AluGeom, m: &RowMajorMatrix<U::BF>, row: usize, t: usize) -> (U::EF, U::EF) {
    if t == 0 { (rd::<U>(m, row, g.operand(0, 0)), rd::<U>(m, row, g.operand(0, 2))) } else { (rd::<U>(m, row, g.step_a(t)), rd::<U>(m, row, g.step_c(t))) }
}

/// Recompute the Horner rows `hrows[from..]` of one chain honestly from the incoming accumulator.
fn recompute_chain<U: CircuitUni>(h: &Honest<U>, m: &mut [RowMajorMatrix<U::BF>], from: usize, mut acc: U::EF) {
    let g = h.dec.geom;
    for (i, hr) in h.dec.hrows.iter().enumerate().skip(from) {
        if i > from && hr.chain_start {
            break;
        }
        let b = rd::<U>(&m[2], hr.row, g.operand(0, 1));
        for t in 0..hr.k {
            let (a, c) = step_ac::<U>(&g, &m[2], hr.row, t);
            acc = acc * b + c - a;
            let done = t + 1;
            if done % 2 == 0 && done < hr.k && done / 2 - 1 < g.num_int {
                wr::<U>(&mut m[2], hr.row, g.int(done / 2 - 1), acc);
            }
        }
        wr::<U>(&mut m[2], hr.row, g.operand(0, 3), acc);
        propagate::<U>(h, m, hr.row, g.operand(0, 3), acc);
    }
}

fn forge_horner<U: CircuitUni>(h: &Honest<U>, f: &CellFault, m: &mut [RowMajorMatrix<U::BF>]) -> bool {
    let g = h.dec.geom;
    let Some(hi) = h.dec.hrows.iter().position(|x| x.row == f.row) else { return false };
    let hr = h.dec.hrows[hi].clone();
    let delta = U::EF::from(U::BF::from_u64(f.delta.max(1)));
    let height = m[2].height();
    match f.kind.as_str() {
        "horner_chain_acc_forge" => {
            if !hr.chain_start {
                return false;
            }
            let above = (hr.row + height - 1) % height;
            if h.dec.ops.iter().any(|o| o.row == above && o.lane == 0) {
                return false;
            }
            let acc = rd::<U>(&m[2], above, g.operand(0, 3)) + delta;
            wr::<U>(&mut m[2], above, g.operand(0, 3), acc);
            recompute_chain::<U>(h, m, hi, acc);
            true
        }
        _ => {
            // back-solve: forged out, intermediates from slot j0 on follow the forged trajectory
            let j0 = f.col;
            if hr.k < 3 || 2 * (j0 + 1) >= hr.k || j0 >= g.num_int {
                return false;
            }
            let b = rd::<U>(&m[2], hr.row, g.operand(0, 1));
            let Some(binv) = p3_field::Field::try_inverse(&b) else { return false };
            let out = rd::<U>(&m[2], hr.row, g.operand(0, 3)) + delta;
            let mut acc = out; // acc after `hr.k` steps
            let mut i = hr.k;
            while i > 2 * (j0 + 1) {
                // acc_i = acc_{i-1} * b + c_{i-1} - a_{i-1}
                let (a, c) = step_ac::<U>(&g, &m[2], hr.row, i - 1);
                acc = (acc - c + a) * binv;
                i -= 1;
                if i % 2 == 0 && i / 2 - 1 < g.num_int && i < hr.k {
                    wr::<U>(&mut m[2], hr.row, g.int(i / 2 - 1), acc);
                }
            }
            wr::<U>(&mut m[2], hr.row, g.operand(0, 3), out);
            propagate::<U>(h, m, hr.row, g.operand(0, 3), out);
            if hi + 1 < h.dec.hrows.len() && !h.dec.hrows[hi + 1].chain_start {
                recompute_chain::<U>(h, m, hi + 1, out);
            }
            true
        }
    }
}

pub struct CaseOut {
    pub accepted: bool,
    pub reject_stage: String,
    pub ground_invalid: Option<String>,
    pub constraints_fail: bool,
}

pub fn prove_forged<U: CircuitUni>(h: &Honest<U>, forged: Vec<RowMajorMatrix<U::BF>>) -> (bool, String) {
    let shared = Arc::new(forged);
    let s2 = shared.clone();
    let tamper: Tamper<U::BF> = Box::new(move |m| {
        for (dst, src) in m.iter_mut().zip(s2.iter()) {
            if dst.values.len() == src.values.len() {
                dst.values.copy_from_slice(&src.values);
            }
        }
    });
    let r = (|| -> Result<(), pipe::Fail> {
        let proof = pipe::prove::<U>(&h.keys, &h.traces, &h.cfg, Some(tamper))?;
        pipe::verify::<U>(&proof, &h.cfg, &h.info.commitment)
    })();
    match r {
        Ok(()) => (true, String::new()),
        Err(f) => (false, f.stage.name().to_string()),
    }
}

fn table_name(t: usize) -> &'static str {
    ["const", "public", "alu"].get(t).copied().unwrap_or("npo")
}

fn col_class<U: CircuitUni>(h: &Honest<U>, f: &CellFault) -> String {
    let d = <U::EF as BasedVectorSpace<U::BF>>::DIMENSION;
    if f.kind == "slot_reassign" {
        let mut names: Vec<&str> = h.dec.bus.get(&(f.row as u64)).map(|c| c.iter().map(|x| x.name).collect()).unwrap_or_default();
        names.sort();
        names.dedup();
        // a reassigned constant is the known unconstrained-Const-value finding whatever reads it
        if names.contains(&"const") {
            return "const.value".to_string();
        }
        return format!("slot[{}]", names.join("+"));
    }
    match f.table {
        2 => {
            if f.kind.starts_with("horner_") {
                let k = h.dec.hrows.iter().find(|x| x.row == f.row).map(|x| x.k).unwrap_or(0);
                let full = if k == h.cfg.horner_k { "kmax" } else { "short" };
                return format!("alu.horner.k{}_{full}.cut{}", k.min(3), f.col.min(2));
            }
            let _ = d;
            let g = h.dec.geom;
            let cls = g.col_class(f.col);
            let lane = if f.col < g.extra_main { f.col / (4 * g.d) } else { 0 };
            let kind = h.dec.ops.iter().find(|o| o.row == f.row && o.lane == lane).map(|o| o.kind).unwrap_or("pad");
            format!("alu.{kind}.{cls}")
        }
        t => format!("{}.value", table_name(t)),
    }
}

/// Enumerate cell faults for the honest matrices: every cell of every active row + one padding row.
pub fn enumerate<U: CircuitUni>(h: &Honest<U>, rng: &mut Rng, tier: Tier) -> Vec<CellFault> {
    let d = <U::EF as BasedVectorSpace<U::BF>>::DIMENSION;
    let mut v = Vec::new();
    let active_rows = |t: usize| -> usize {
        match t {
            0 => (h.info.primitive_cols[0].len() / 2).max(1),
            1 => {
                let lanes = (h.mats[1].width() / d).max(1);
                (h.info.primitive_cols[1].len() / 2).div_ceil(lanes).max(1)
            }
            _ => h.dec.alu_rows_active.max(1),
        }
    };
    for t in 0..3usize {
        let rows = (active_rows(t) + 1).min(h.mats[t].height());
        let w = h.mats[t].width();
        for r in 0..rows {
            for c in 0..w {
                let delta = match rng.below(3) {
                    0 => 1,
                    1 => U::BF::ORDER_U64 - 1,
                    _ => 1 + rng.below(U::BF::ORDER_U64 - 1),
                };
                v.push(CellFault { kind: "cell_flip".into(), table: t, row: r, col: c, delta, row2: 0 });
                if t == 2 && (tier == Tier::Thorough || rng.chance(1, 3)) {
                    v.push(CellFault { kind: "cell_local_resolve".into(), table: t, row: r, col: c, delta, row2: 0 });
                }
            }
        }
        for _ in 0..tier.pick(3, 10) {
            let (r1, r2) = (rng.usize_below(rows), rng.usize_below(rows));
            v.push(CellFault { kind: "row_swap".into(), table: t, row: r1, col: 0, delta: 0, row2: r2 });
        }
    }
    // compensating two-limb faults inside one operand of every active ALU op (extension degrees >= 2)
    if d >= 2 {
        let g = h.dec.geom;
        for op in &h.dec.ops {
            for operand in 0..4usize {
                let (i, j) = (rng.usize_below(d), rng.usize_below(d));
                if i == j {
                    continue;
                }
                let base = g.operand(op.lane, operand);
                v.push(CellFault { kind: "limb_pair".into(), table: 2, row: op.row, col: base + i, delta: 1 + rng.below(U::BF::ORDER_U64 - 1), row2: base + j });
            }
        }
    }
    // witness values changed without propagation: every slot on the bus (capped)
    let mut slots: Vec<u64> = h.dec.bus.keys().copied().collect();
    rng.shuffle(&mut slots);
    for slot in slots.into_iter().take(tier.pick(24, 200)) {
        let delta = if rng.chance(1, 2) { 0 } else { 1 + rng.below(U::BF::ORDER_U64 - 1) };
        v.push(CellFault { kind: "slot_reassign".into(), table: 0, row: slot as usize, col: 0, delta, row2: 0 });
    }
    for hr in &h.dec.hrows {
        let delta = 1 + rng.below(U::BF::ORDER_U64 - 1);
        if hr.chain_start {
            v.push(CellFault { kind: "horner_chain_acc_forge".into(), table: 2, row: hr.row, col: 0, delta, row2: 0 });
        }
        for j0 in 0..h.dec.geom.num_int {
            if hr.k >= 3 && 2 * (j0 + 1) < hr.k {
                v.push(CellFault { kind: "horner_backsolve".into(), table: 2, row: hr.row, col: j0, delta, row2: 0 });
            }
        }
    }
    v
}

pub fn gen_program<U: CircuitUni>(rng: &mut Rng, tier: Tier) -> Program {
    let gcfg = GenCfg {
        min_calls: 4,
        max_calls: tier.pick(14, 30),
        hints: rng.chance(1, 3),
        horner: *rng.pick(&[0, 1, 3, 3]),
        creator_aliasing: false,
        claim_privates: true,
        div: true,
        recompose_npo: false,
    };
    gprog::generate::<U::BF, U::EF>(rng, &gcfg)
}

/// const_substitute_propagated (d3): change one `Op::Const` value in a clone of the circuit, run
/// honestly with the new constant, prove with the ORIGINAL keys.
pub fn const_substitute<U: CircuitUni>(h: &Honest<U>, p: &Program, which: usize, out: &mut RunOut) -> Option<(String, String)> {
    let mut c2 = h.circuit.clone();
    let mut k = 0usize;
    let mut changed = false;
    for op in c2.ops.iter_mut() {
        if let Op::Const { val, .. } = op {
            if k == which && *val != U::EF::ZERO {
                *val += U::EF::ONE;
                changed = true;
            }
            k += 1;
        }
    }
    if !changed {
        return None;
    }
    let traces2 = pipe::run_circuit::<U>(&c2, p).ok()?;
    out.count("fired_const_substitute_propagated");
    let r = (|| -> Result<(), pipe::Fail> {
        let proof = pipe::prove::<U>(&h.keys, &traces2, &h.cfg, None)?;
        pipe::verify::<U>(&proof, &h.cfg, &h.info.commitment)
    })();
    if r.is_ok() {
        return Some((
            "const_substitute_propagated".to_string(),
            format!("constant #{which} replaced by constant+1 and propagated through an honest run; proof made with the original verifying data is ACCEPTED: the committed values do not carry the circuit's constants"),
        ));
    }
    out.count("const_substitute_rejected");
    None
}

pub fn one_run<U: CircuitUni>(ctx: &Ctx, prop: &str, idx: u64, out: &mut RunOut) {
    let mut rng = Rng::new(ctx.seed, "C04", idx);
    let p = gen_program::<U>(&mut rng, ctx.tier);
    let r = gprog::ref_eval::<U::BF, U::EF>(&p);
    if !r.sat || r.precond_violated {
        out.count("generator_unsat_skipped");
        return;
    }
    let mut cfg = ProverCfg::swarm(&mut rng, BuilderOpts::default());
    cfg.min_height = cfg.min_height.min(8);
    let hs = mix(ctx.seed, idx);
    let h = match honest::<U>(&p, &cfg, hs) {
        Ok(h) => h,
        Err(e) => {
            out.count(&format!("honest_pipeline_failed_{}", e.split(':').next().unwrap_or("x").replace(' ', "_")));
            return;
        }
    };
    // control: honest matrices are valid by ground truth and by constraints, and the proof verifies
    let gt0 = tabeval::judge::<U::BF, U::EF>(&h.circuit, &h.info, &h.alu_prep, &h.mats, cfg.horner_k, tabeval::E2E);
    let cc0 = U::constraint_check(&h.keys, &h.mats);
    out.evals += 1;
    if gt0.as_deref().is_some_and(|w| w.starts_with("decode: accumulator")) {
        out.count("horner_accumulator_not_on_tables_skipped");
        return;
    }
    if let Some(why) = gt0 {
        out.violate("oracle_rejects_honest_trace".to_string(), format!("harness self-check: ground-truth evaluator rejects the honest matrices: {why}"), json!({"universe": U::NAME, "program": p, "cfg": cfg.to_json(), "hash_seed": hs}));
        return;
    }
    if tabeval::judge::<U::BF, U::EF>(&h.circuit, &h.info, &h.alu_prep, &h.mats, cfg.horner_k, tabeval::ROW_RELATION).is_some() {
        // the honest matrices are not legal under the table's own row relation (two Horner chains
        // scheduled back to back: the second one's accumulator is not the row above). That the
        // layout misrepresents the circuit is C10's finding; the row-level iff has nothing to say.
        out.count("honest_trace_not_row_legal_skipped");
        return;
    }
    if let Some((t, Some((row, msg)))) = cc0.iter().enumerate().find(|(_, x)| x.is_some()).map(|(t, x)| (t, x.clone())) {
        out.violate(
            format!("honest_row_fails_constraints:{}", table_name(t)),
            format!("relation holds (honest trace) but the {} table's constraints fail at row {row}: {}", table_name(t), msg.chars().take(200).collect::<String>()),
            json!({"universe": U::NAME, "program": p, "cfg": cfg.to_json(), "hash_seed": hs}),
        );
        return;
    }
    if out.samples.is_empty() {
        out.samples.push(json!({"universe": U::NAME, "program": p, "cfg": cfg.to_json(), "matrix_shapes": h.mats.iter().map(|m| (m.height(), m.width())).collect::<Vec<_>>()}));
    }
    let faults = enumerate::<U>(&h, &mut rng, ctx.tier);
    for f in faults {
        if prop == "C11" && f.kind == "slot_reassign" {
            continue; // a bus-level fault over several tables: C04's business, not the row-level iff
        }
        let Some(forged) = forge::<U>(&h, &f) else {
            out.count(&format!("not_fired_{}", f.kind));
            continue;
        };
        out.count(&format!("fired_{}", f.kind));
        out.evals += 1;
        out.steps += 1;
        let class = col_class::<U>(&h, &f);
        out.distinct.insert(crate::core::prng::fnv64(format!("{}:{}:{class}", U::NAME, f.kind).as_bytes()));
        let gt = tabeval::judge::<U::BF, U::EF>(&h.circuit, &h.info, &h.alu_prep, &forged, cfg.horner_k, tabeval::E2E);
        if prop == "C11" {
            // constraint level: relation (row relation only, no bus) vs constraints of that table
            let cc = U::constraint_check(&h.keys, &forged);
            let fails = cc.get(f.table).map(|x| x.is_some()).unwrap_or(false);
            let rel_invalid = row_relation_invalid::<U>(&h, &forged, &f);
            match (rel_invalid, fails) {
                (true, false) => out.violate(
                    format!("constraints_accept_illegal_row:{}:{class}", f.kind),
                    format!("{} of {} table row {} col {} ({class}): the op's relation fails on the row but every constraint of the table vanishes", f.kind, table_name(f.table), f.row, f.col),
                    json!({"universe": U::NAME, "program": p, "cfg": cfg.to_json(), "hash_seed": hs, "fault": f}),
                ),
                (false, true) => out.count("relation_holds_but_constraints_fail_dontcare_cell"),
                (true, true) => out.count("illegal_row_rejected_by_constraints"),
                (false, false) => out.count("legal_row_accepted_by_constraints"),
            }
            continue;
        }
        let (accepted, stage) = prove_forged::<U>(&h, forged);
        if accepted {
            out.count("forged_accepted");
            match gt {
                Some(why) => out.violate(
                    format!("{}:{class}", f.kind),
                    format!("{} on {} ({class}) is ACCEPTED by the verifier although the committed values are invalid: {why}", f.kind, if f.kind == "slot_reassign" { format!("witness slot {}", f.row) } else { format!("{} table row {} col {}", table_name(f.table), f.row, f.col) }),
                    json!({"universe": U::NAME, "program": p, "cfg": cfg.to_json(), "hash_seed": hs, "fault": f}),
                ),
                None => out.count("forged_accepted_trace_still_valid"),
            }
        } else {
            out.count(&format!("forged_rejected_at_{stage}"));
            if gt.is_none() {
                out.count("valid_alternative_trace_rejected");
            }
        }
    }
    if prop == "C04" {
        let nconst = h.circuit.ops.iter().filter(|o| matches!(o, Op::Const { .. })).count();
        for which in 0..nconst.min(3) {
            out.evals += 1;
            if let Some((k, c)) = const_substitute::<U>(&h, &p, which, out) {
                out.violate(k, c, json!({"universe": U::NAME, "program": p, "cfg": cfg.to_json(), "hash_seed": hs, "fault": {"kind": "const_substitute", "table": 0, "row": which, "col": 0, "delta": 1, "row2": 0}}));
            }
        }
    }
}

/// Row-relation oracle for the faulted table only (C11): does the altered row (or its neighbours
/// for swaps) violate the op's defining relation / the constant it must carry?
fn row_relation_invalid<U: CircuitUni>(h: &Honest<U>, forged: &[RowMajorMatrix<U::BF>], f: &CellFault) -> bool {
    // bus switched off, constants not compared (ConstAir has no constraints by design: see C04),
    // Horner accumulator = lane-0 `out` of the row above (the AIR's own row relation)
    let _ = f;
    tabeval::judge::<U::BF, U::EF>(&h.circuit, &h.info, &h.alu_prep, forged, h.cfg.horner_k, tabeval::ROW_RELATION).is_some()
}

pub fn replay<U: CircuitUni>(ctx: &Ctx, body: &Value) -> i32 {
    let d = &body["detail"];
    let p: Program = match serde_json::from_value(d["program"].clone()) {
        Ok(p) => p,
        Err(e) => {
            eprintln!("harness error: bad replay file: {e}");
            return 2;
        }
    };
    let cfg = ProverCfg::from_json(&d["cfg"]);
    let hs = d["hash_seed"].as_u64().unwrap_or(1);
    let h = match honest::<U>(&p, &cfg, hs) {
        Ok(h) => h,
        Err(e) => {
            println!("replay: honest pipeline failed: {e}");
            return 0;
        }
    };
    let key = body["key"].as_str().unwrap_or("");
    if d["fault"].is_null() {
        // control-arm violation
        let gt0 = tabeval::judge::<U::BF, U::EF>(&h.circuit, &h.info, &h.alu_prep, &h.mats, cfg.horner_k, tabeval::E2E);
        let cc0 = U::constraint_check(&h.keys, &h.mats);
        println!("replay: ground truth on honest = {gt0:?}; constraints = {:?}", cc0.iter().map(|x| x.as_ref().map(|y| y.0)).collect::<Vec<_>>());
        if gt0.is_some() || cc0.iter().any(|x| x.is_some()) {
            println!("VIOLATION property={} replay={}", ctx.prop, ctx.replay.as_ref().unwrap().display());
            return 1;
        }
        return 0;
    }
    let f: CellFault = serde_json::from_value(d["fault"].clone()).unwrap();
    if f.kind == "const_substitute" {
        let mut tmp = RunOut::default();
        return match const_substitute::<U>(&h, &p, f.row, &mut tmp) {
            Some((k, c)) => {
                println!("VIOLATION property={} replay={}", ctx.prop, ctx.replay.as_ref().unwrap().display());
                println!("  key={k} clause={c}");
                1
            }
            None => {
                println!("replay did not reproduce");
                0
            }
        };
    }
    let Some(forged) = forge::<U>(&h, &f) else {
        println!("replay: fault did not fire");
        return 0;
    };
    let gt = tabeval::judge::<U::BF, U::EF>(&h.circuit, &h.info, &h.alu_prep, &forged, cfg.horner_k, tabeval::E2E);
    if ctx.prop == "C11" {
        let cc = U::constraint_check(&h.keys, &forged);
        let fails = cc.get(f.table).map(|x| x.is_some()).unwrap_or(false);
        let rel = row_relation_invalid::<U>(&h, &forged, &f);
        println!("replay: relation_invalid={rel} constraints_fail={fails}");
        if rel && !fails {
            println!("VIOLATION property={} replay={}", ctx.prop, ctx.replay.as_ref().unwrap().display());
            return 1;
        }
        return 0;
    }
    let (acc, stage) = prove_forged::<U>(&h, forged);
    println!("replay: accepted={acc} rejected_at={stage} ground_truth_invalid={gt:?} key={key}");
    if acc && gt.is_some() {
        println!("VIOLATION property={} replay={}", ctx.prop, ctx.replay.as_ref().unwrap().display());
        1
    } else {
        println!("replay did not reproduce");
        0
    }
}



/// NPO arm: single-cell faults on the committed Poseidon2 and recompose tables of Merkle-opening
/// circuits (library MMCS verification, arity 2 and 4, and raw `add_poseidon2_perm` paths that
/// expose their index). Expected verdicts come from the documented row layout
/// `[permutation columns | mmcs_bit | extra (bit2, bit*bit2) | mmcs_index_sum]`:
/// a permutation column, the product column or a recompose cell changed by one is always illegal
/// (the permutation columns are a function of the input cells, the recompose row is tied to its
/// output on the bus); a direction bit or the index accumulator changed by one is illegal on a
/// Merkle-path row and a don't-care elsewhere; a direction bit set to 2 is illegal on every row.
pub fn npo_cells_run(ctx: &Ctx, idx: u64, out: &mut RunOut) {
    use crate::props::{c08, c10};
    use p3_circuit::ops::Poseidon2Config;
    let mut rng = Rng::new(ctx.seed, "C04-npo", idx);
    // C04 runs this arm on every fourth run, C11 on one run in two hundred: rotate per arm run
    let family = ["a2", "a4", "raw", "q5", "p1"][(if ctx.prop == "C11" { idx / 200 } else { idx / 4 } % 5) as usize];
    let hs = mix(mix(ctx.seed, idx), 0x6e63);
    foldhash::sim::set_seed(hs);
    match family {
        "a2" | "a4" | "q5" | "p1" => {
            let uni = if family == "a4" { "U-KB4-A4" } else { "U-KB4" };
            let shape = c08::draw_shape(&mut rng, uni, ctx.tier);
            let max_h = shape.dims.iter().map(|d| d.0).max().unwrap();
            let index = rng.usize_below(max_h);
            let desc = json!({"shape": shape, "index": index});
            match family {
                "a4" => {
                    let b = crate::core::pool::observe(|| c08::kb4a4::build_and_run(&shape, index)).unwrap_or_else(Err);
                    npo_cells_core::<crate::uni::Kb4>(ctx, idx, family, b, Poseidon2Config::KOALA_BEAR_D4_W32.into(), desc, &|s, i| c08::kb4a4::build_and_run(s, i), &mut rng, out)
                }
                "p1" => {
                    let b = crate::core::pool::observe(|| c08::kb4p1::build_and_run(&shape, index)).unwrap_or_else(Err);
                    npo_cells_core::<crate::uni::Kb4>(ctx, idx, family, b, p3_circuit::ops::Poseidon1Config::KOALA_BEAR_D4_W16.into(), desc, &|s, i| c08::kb4p1::build_and_run(s, i), &mut rng, out)
                }
                "q5" => {
                    let b = crate::core::pool::observe(|| c08::kb5q::build_and_run(&shape, index)).unwrap_or_else(Err);
                    npo_cells_core::<crate::uni::Kb5q>(ctx, idx, family, b, Poseidon2Config::KOALA_BEAR_D1_W16.into(), desc, &|s, i| c08::kb5q::build_and_run(s, i), &mut rng, out)
                }
                _ => {
                    let b = crate::core::pool::observe(|| c08::kb4::build_and_run(&shape, index)).unwrap_or_else(Err);
                    npo_cells_core::<crate::uni::Kb4>(ctx, idx, family, b, Poseidon2Config::KOALA_BEAR_D4_W16.into(), desc, &|s, i| c08::kb4::build_and_run(s, i), &mut rng, out)
                }
            }
        }
        _ => {
            let (depth, pre, expose) = (rng.range(1, 6), rng.range(0, 2), rng.chance(3, 4));
            let b = c10::raw_merkle_build_kb4(depth, pre, expose, hs).map_err(|e| e.1);
            let desc = json!({"depth": depth, "pre": pre, "expose_index": expose});
            npo_cells_core::<crate::uni::Kb4>(ctx, idx, family, b, Poseidon2Config::KOALA_BEAR_D4_W16.into(), desc, &|_, _| Err("raw".into()), &mut rng, out)
        }
    }
}

/// (merkle_path, new_start) of every permutation row of the circuit's Poseidon1 / Poseidon2 table.
pub(crate) fn perm_row_flags<F: p3_field::Field, EF: p3_field::ExtensionField<F>>(traces: &p3_circuit::tables::Traces<EF>, cfg: p3_circuit::ops::PermConfig) -> Option<Vec<(bool, bool)>> {
    use p3_circuit::ops::{NpoTypeId, PermConfig, Poseidon1Trace, Poseidon2Trace};
    match cfg {
        PermConfig::Poseidon2(c) => traces.non_primitive_trace::<Poseidon2Trace<F>>(&NpoTypeId::poseidon2_perm(c)).map(|t| t.operations.iter().map(|o| (o.merkle_path, o.new_start)).collect()),
        PermConfig::Poseidon1(c) => traces.non_primitive_trace::<Poseidon1Trace<F>>(&NpoTypeId::poseidon1_perm(c)).map(|t| t.operations.iter().map(|o| (o.merkle_path, o.new_start)).collect()),
    }
}

#[allow(clippy::too_many_arguments, clippy::type_complexity)]
fn npo_cells_core<U: CircuitUni>(
    ctx: &Ctx,
    idx: u64,
    family: &str,
    built: Result<(Circuit<U::EF>, p3_circuit::tables::Traces<U::EF>), String>,
    p2cfg: p3_circuit::ops::PermConfig,
    desc: Value,
    rebuild: &dyn Fn(&crate::props::c08::MmcsShape, usize) -> Result<(Circuit<U::EF>, p3_circuit::tables::Traces<U::EF>), String>,
    rng: &mut Rng,
    out: &mut RunOut,
) {
    use crate::props::c08;
    use p3_circuit::ops::{NpoTypeId, Poseidon2Trace};
    let Ok((circuit, traces)) = built else {
        out.count("npo_cells_circuit_not_buildable");
        return;
    };
    let cfg = ProverCfg { npo: BuilderOpts { poseidon: true, recompose: true }, poseidon_w32: family == "a4", poseidon1: family == "p1", ..ProverCfg::default() };
    let Ok((keys, info)) = pipe::keygen::<U>(&circuit, &cfg) else {
        out.count("npo_cells_keygen_failed");
        return;
    };
    let Ok(Ok(mats)) = crate::core::pool::observe(|| capture_matrices::<U>(&keys, &traces, &cfg)) else {
        out.count("npo_cells_honest_prove_failed");
        return;
    };
    // control: honest proof verifies
    let control = (|| -> Result<(), pipe::Fail> {
        let proof = pipe::prove::<U>(&keys, &traces, &cfg, None)?;
        pipe::verify::<U>(&proof, &cfg, &info.commitment)
    })();
    out.evals += 1;
    if control.is_err() {
        out.count("npo_cells_honest_rejected_skipped");
        return;
    }
    let Some(p2) = perm_row_flags::<U::BF, U::EF>(&traces, p2cfg) else {
        out.count("npo_cells_no_poseidon_trace");
        return;
    };
    let n_ops = p2.len();
    let extra = if family == "a4" { 2 } else { 0 };
    // the Poseidon table is the widest non-primitive table; recompose tables are the narrow ones
    let Some((pt, _)) = mats.iter().enumerate().skip(3).max_by_key(|(_, m)| m.width()) else { return };
    let pw = mats[pt].width();
    let (bit_c, idx_c) = (pw - 2 - extra, pw - 1);
    let class_of = |c: usize| -> &'static str {
        if c == bit_c {
            "bit"
        } else if c == idx_c {
            "index_sum"
        } else if extra == 2 && c == bit_c + 1 {
            "bit2"
        } else if extra == 2 && c == bit_c + 2 {
            "bit_x_bit2"
        } else {
            "perm"
        }
    };
    // (table, row, col, set_to_two)
    let mut cases: Vec<(usize, usize, usize, bool)> = Vec::new();
    let rows = (n_ops + 1).min(mats[pt].height());
    for r in 0..rows {
        for c in bit_c..pw {
            cases.push((pt, r, c, false));
            if class_of(c) == "bit" || class_of(c) == "bit2" {
                cases.push((pt, r, c, true));
            }
        }
        for _ in 0..ctx.tier.pick(6, 40) {
            cases.push((pt, r, rng.usize_below(bit_c), false));
        }
    }
    for (t, m) in mats.iter().enumerate().skip(3) {
        if t != pt {
            for r in 0..m.height().min(4) {
                for c in 0..m.width() {
                    cases.push((t, r, c, false));
                }
            }
        }
    }
    // the claimed index: every direction bit of the opening is a public input; flipping it in the
    // Public table alone claims another leaf position for the same authenticated path
    let row_level_only = ctx.prop == "C11";
    let mut dir_rows: Vec<usize> = Vec::new();
    if family != "raw" && !row_level_only {
        if let (Some(sh), Some(_)) = (desc.get("shape"), desc.get("index")) {
            let dims: Vec<(usize, usize)> = serde_json::from_value(sh["dims"].clone()).unwrap_or_default();
            let n_open: usize = dims.iter().map(|d| d.1).sum();
            let log_max = dims.iter().map(|d| d.0).max().unwrap_or(1).next_power_of_two().trailing_zeros() as usize;
            dir_rows = (n_open..n_open + log_max).collect();
            for &r in &dir_rows {
                cases.push((1, r, 0, false));
            }
        }
    }
    let keys = &keys;
    for (t, r, c, two) in cases {
        let mut forged = mats.clone();
        let w = forged[t].width();
        if r * w + c >= forged[t].values.len() {
            continue;
        }
        let cell = &mut forged[t].values[r * w + c];
        let new = if t == 1 {
            if *cell == U::BF::ZERO { U::BF::ONE } else { U::BF::ZERO }
        } else if two {
            U::BF::TWO
        } else {
            *cell + U::BF::ONE
        };
        if new == *cell {
            continue;
        }
        *cell = new;
        let shared = Arc::new(forged);
        let s2 = shared.clone();
        let tamper: Tamper<U::BF> = Box::new(move |m| {
            for (dst, src) in m.iter_mut().zip(s2.iter()) {
                if dst.values.len() == src.values.len() {
                    dst.values.copy_from_slice(&src.values);
                }
            }
        });
        let accepted = (|| -> Result<(), pipe::Fail> {
            let proof = pipe::prove::<U>(keys, &traces, &cfg, Some(tamper))?;
            pipe::verify::<U>(&proof, &cfg, &info.commitment)
        })()
        .is_ok();
        out.evals += 1;
        out.steps += 1;
        let (class, row_kind) = if t == 1 {
            ("direction_input", "public")
        } else if t != pt && mats[t].values[r * mats[t].width()..(r + 1) * mats[t].width()].iter().all(|x| *x == U::BF::ZERO) {
            // an all-zero recompose row is (or is indistinguishable from) a padding row: no
            // multiplicity, no constraint, its cells are don't-cares
            ("recompose", "padding")
        } else if t == pt {
            (class_of(c), if r >= n_ops { "padding" } else if p2[r].0 && p2[r].1 { "merkle_start" } else if p2[r].0 { "merkle" } else { "sponge" })
        } else {
            ("recompose", "any")
        };
        let kind = if two { "set2" } else { "plus1" };
        if class == "direction_input" && std::env::var("VERIF_DUMP_SKIPPED").is_ok() {
            eprintln!("DIRFLIP {family} bit={} accepted={accepted} {}", r - dir_rows[0], desc);
        }
        out.count(&format!("npo_fired_{kind}_{class}"));
        out.distinct.insert(crate::core::prng::fnv64(format!("npo:{family}:{kind}:{class}:{row_kind}").as_bytes()));
        // the index accumulator of a Merkle row is tied to its neighbours only: on a chain of one
        // row (chain start, no continuation after it) that does not expose it, it is a don't-care
        let isolated_sum = class == "index_sum"
            && t == pt
            && r < n_ops
            && p2[r].1
            && !(r + 1 < n_ops && p2[r + 1].0 && !p2[r + 1].1)
            && (family != "raw" || desc.get("expose_index").and_then(|x| x.as_bool()) == Some(false));
        let must_reject = match (class, two) {
            ("bit" | "bit2", true) => true,
            ("recompose", _) => row_kind != "padding",
            ("perm" | "bit_x_bit2" | "direction_input", _) => true,
            (_, false) => (row_kind == "merkle" || row_kind == "merkle_start") && !isolated_sum,
            _ => false,
        };
        if accepted && must_reject {
            out.violate(
                format!("npo_cell:{family}:{kind}:{class}:{row_kind}"),
                format!("{family} circuit: Poseidon/recompose table {t} row {r} ({row_kind}) column {c} ({class}) {}: the proof is ACCEPTED although that row is no longer a legal row", if two { "set to 2" } else { "increased by one" }),
                json!({"npo_cells": true, "idx": idx, "family": family, "desc": desc, "table": t, "row": r, "col": c, "two": two}),
            );
        } else if accepted {
            out.count("npo_dont_care_cell_accepted");
        } else {
            out.count("npo_forged_rejected");
        }
    }
    // direction bit of a Merkle continuation row flipped *and* the index accumulators re-summed
    // from there to the end of the chain (the single-cell flip is always caught by the accumulator
    // recurrence): the placement constraints must still reject, on ordinary path rows and on rows
    // that take an injected digest from the bus
    if extra == 0 {
        for r in 1..n_ops.min(mats[pt].height()) {
            if !(p2[r].0 && !p2[r].1) {
                continue;
            }
            let mut forged = mats.clone();
            let w = pw;
            let b = forged[pt].values[r * w + bit_c];
            forged[pt].values[r * w + bit_c] = U::BF::ONE - b;
            let mut rr = r;
            loop {
                let prev = forged[pt].values[(rr - 1) * w + idx_c];
                forged[pt].values[rr * w + idx_c] = prev + prev + forged[pt].values[rr * w + bit_c];
                rr += 1;
                if rr >= n_ops || rr >= mats[pt].height() || !p2[rr].0 || p2[rr].1 {
                    break;
                }
            }
            let shared = Arc::new(forged);
            let s2 = shared.clone();
            let tamper: Tamper<U::BF> = Box::new(move |m| {
                for (dst, src) in m.iter_mut().zip(s2.iter()) {
                    if dst.values.len() == src.values.len() {
                        dst.values.copy_from_slice(&src.values);
                    }
                }
            });
            let accepted = (|| -> Result<(), pipe::Fail> {
                let proof = pipe::prove::<U>(keys, &traces, &cfg, Some(tamper))?;
                pipe::verify::<U>(&proof, &cfg, &info.commitment)
            })()
            .is_ok();
            out.evals += 1;
            out.steps += 1;
            out.count("npo_fired_bitflip_resum");
            out.distinct.insert(crate::core::prng::fnv64(format!("npo:{family}:bitflip_resum").as_bytes()));
            if accepted {
                out.violate(
                    format!("npo_bitflip_resum:{family}:merkle"),
                    format!("{family} circuit: direction bit of Merkle continuation row {r} flipped and the index accumulators of the rest of the chain re-summed: the proof is ACCEPTED although the row's inputs are no longer placed as the bit says"),
                    json!({"npo_cells": true, "idx": idx, "family": family, "desc": desc, "bitflip_resum_row": r}),
                );
            } else {
                out.count("npo_forged_rejected");
            }
        }
    }
    // path transplant: the Merkle-path rows of an honest opening at another index (same cap entry)
    // replace those of this opening; opened values, leaf hashing, claimed index bits and every
    // other table stay those of this opening. Both paths end in the same root, so only a tie
    // between the path rows and (leaf digest, direction bits) can reject it.
    if family != "raw" && !row_level_only {
        if let (Some(sh), Some(ix)) = (desc.get("shape"), desc.get("index").and_then(|x| x.as_u64())) {
            let shape: c08::MmcsShape = serde_json::from_value(sh.clone()).unwrap();
            let max_h = shape.dims.iter().map(|d| d.0).max().unwrap();
            let path_bits = (max_h.next_power_of_two().trailing_zeros() as usize).saturating_sub(shape.cap_height);
            if path_bits > 0 {
                let other = (ix as usize) ^ (1 + rng.usize_below((1usize << path_bits) - 1).min((1usize << path_bits) - 2));
                let b2 = crate::core::pool::observe(|| rebuild(&shape, other % max_h)).unwrap_or_else(Err);
                if let Ok((c2, t2)) = b2 {
                    if let Ok((k2, _)) = pipe::keygen::<U>(&c2, &cfg) {
                        if let (Ok(Ok(m2)), Some(p2b)) = (crate::core::pool::observe(|| capture_matrices::<U>(&k2, &t2, &cfg)), perm_row_flags::<U::BF, U::EF>(&t2, p2cfg)) {
                            if m2.len() == mats.len() && m2[pt].values.len() == mats[pt].values.len() && p2b.len() == n_ops {
                                let mut forged = mats.clone();
                                let w = forged[pt].width();
                                let mut moved = 0;
                                for r in 0..n_ops {
                                    if p2[r].0 && p2b[r].0 {
                                        forged[pt].values[r * w..(r + 1) * w].copy_from_slice(&m2[pt].values[r * w..(r + 1) * w]);
                                        moved += 1;
                                    }
                                }
                                if moved > 0 && forged[pt].values != mats[pt].values {
                                    let shared = Arc::new(forged);
                                    let s2 = shared.clone();
                                    let tamper: Tamper<U::BF> = Box::new(move |m| {
                                        for (dst, src) in m.iter_mut().zip(s2.iter()) {
                                            if dst.values.len() == src.values.len() {
                                                dst.values.copy_from_slice(&src.values);
                                            }
                                        }
                                    });
                                    let accepted = (|| -> Result<(), pipe::Fail> {
                                        let proof = pipe::prove::<U>(keys, &traces, &cfg, Some(tamper))?;
                                        pipe::verify::<U>(&proof, &cfg, &info.commitment)
                                    })()
                                    .is_ok();
                                    out.evals += 1;
                                    out.count("npo_fired_path_transplant");
                                    out.distinct.insert(crate::core::prng::fnv64(format!("npo:{family}:transplant").as_bytes()));
                                    if accepted {
                                        out.violate(
                                            format!("npo_path_transplant:{family}"),
                                            format!("{family} circuit: the Merkle-path rows of the honest opening at index {} replace those of the opening at index {ix} (opened values, leaf hashing and claimed index bits unchanged): the proof is ACCEPTED, so the authenticated path is tied neither to the leaf digest nor to the claimed position", other % max_h),
                                            json!({"npo_cells": true, "idx": idx, "family": family, "desc": desc, "transplant_from": other % max_h}),
                                        );
                                    } else {
                                        out.count("npo_path_transplant_rejected");
                                    }
                                }
                            }
                        }
                    }
                }
            }
        }
    }
}

/// Diagnostic / calibration run: every cell of the first rows of every non-primitive table of one
/// Merkle-opening circuit is altered (+1), one at a time, proven and verified; prints which
/// (table, column) classes the verifier still accepts. `kind`: a2 | a4.
pub fn npo_cell_experiment(kind: &str, rows_cap: usize) -> i32 {
    use crate::props::c08;
    type U = crate::uni::Kb4;
    let shape = c08::MmcsShape { universe: if kind == "a4" { "U-KB4-A4".into() } else { "U-KB4".into() }, dims: vec![(32, 3), (16, 2), (8, 5)], cap_height: 1, seed: 77 };
    foldhash::sim::set_seed(5);
    let built = if kind == "a4" { c08::kb4a4::build_and_run(&shape, 9) } else { c08::kb4::build_and_run(&shape, 9) };
    let (circuit, traces) = match built {
        Ok(x) => x,
        Err(e) => {
            println!("build failed: {e}");
            return 2;
        }
    };
    let cfg = ProverCfg { npo: BuilderOpts { poseidon: true, recompose: true }, poseidon_w32: kind == "a4", ..ProverCfg::default() };
    let (keys, info) = match pipe::keygen::<U>(&circuit, &cfg) {
        Ok(x) => x,
        Err(f) => {
            println!("keygen failed: {}", f.msg);
            return 2;
        }
    };
    let mats = capture_matrices::<U>(&keys, &traces, &cfg).unwrap();
    println!("tables: {:?}", mats.iter().map(|m| (m.height(), m.width())).collect::<Vec<_>>());
    println!("order: {:?}", info.air_order);
    let mut jobs: Vec<(usize, usize, usize)> = Vec::new();
    for (t, m) in mats.iter().enumerate().skip(3) {
        for r in 0..m.height().min(rows_cap) {
            for c in 0..m.width() {
                jobs.push((t, r, c));
            }
        }
    }
    println!("cases: {}", jobs.len());
    let keys = std::sync::Arc::new(keys);
    let res = crate::core::pool::run_jobs(jobs.len() as u64, |i| {
        let (t, r, c) = jobs[i as usize];
        let mut out = RunOut::default();
        let mut forged = mats.clone();
        let w = forged[t].width();
        forged[t].values[r * w + c] += <U as CircuitUni>::BF::ONE;
        let shared = Arc::new(forged);
        let s2 = shared.clone();
        let tamper: Tamper<<U as CircuitUni>::BF> = Box::new(move |m| {
            for (dst, src) in m.iter_mut().zip(s2.iter()) {
                if dst.values.len() == src.values.len() {
                    dst.values.copy_from_slice(&src.values);
                }
            }
        });
        let ok = (|| -> Result<(), pipe::Fail> {
            let proof = pipe::prove::<U>(&keys, &traces, &cfg, Some(tamper))?;
            pipe::verify::<U>(&proof, &cfg, &info.commitment)
        })()
        .is_ok();
        if ok {
            out.count(&format!("accepted t{t} r{r} c{c}"));
        }
        out.evals = 1;
        out
    });
    match res {
        Ok(outs) => {
            let mut total = RunOut::default();
            for o in outs {
                total.merge(o);
            }
            for (k, v) in &total.counters {
                println!("{k} x{v}");
            }
            println!("accepted {} of {}", total.counters.len(), total.evals);
            0
        }
        Err(e) => {
            println!("error {e}");
            2
        }
    }
}

pub fn main(ctx: &Ctx) -> i32 {
    if let Some(k) = ctx.args.get("npocells") {
        return npo_cell_experiment(k, ctx.args.get("rows").and_then(|x| x.parse().ok()).unwrap_or(4));
    }
    let prop = ctx.prop.clone();
    if let Some(path) = &ctx.replay {
        let body: Value = match std::fs::read_to_string(path).ok().and_then(|s| serde_json::from_str(&s).ok()) {
            Some(b) => b,
            None => {
                eprintln!("harness error: cannot read replay file");
                return 2;
            }
        };
        let d = &body["detail"];
        if d["npo_cells"].as_bool() == Some(true) || d["sponge"].as_bool() == Some(true) {
            // these arms are a pure function of (seed, tier, run index): re-run that run and look
            // for the recorded finding
            let rctx = Ctx {
                prop: ctx.prop.clone(),
                tier: if body["tier"].as_str() == Some("thorough") { Tier::Thorough } else { Tier::Quick },
                seed: body["seed"].as_u64().unwrap_or(ctx.seed),
                root: ctx.root.clone(),
                replay: None,
                start: ctx.start,
                args: ctx.args.clone(),
            };
            let idx = d["idx"].as_u64().unwrap_or(0);
            let mut out = RunOut::default();
            if d["sponge"].as_bool() == Some(true) {
                let only = d["call"].as_u64().zip(d["limb"].as_u64()).map(|(c, l)| (c as usize, l as usize));
                if d["a4"].as_bool() == Some(true) {
                    crate::props::c04sponge::run_a4(&rctx, idx, only, &mut out);
                } else if d["merkle"].as_bool() == Some(true) {
                    crate::props::c04sponge::run_merkle(&rctx, idx, only, &mut out);
                } else {
                    crate::props::c04sponge::run(&rctx, idx, only, &mut out);
                }
            } else {
                npo_cells_run(&rctx, idx, &mut out);
            }
            let key = body["key"].as_str().unwrap_or("");
            let hit = out.violations.iter().any(|v| v.key == key);
            println!("replay: run {idx} re-executed, {} violation(s), recorded key {}", out.violations.len(), if hit { "reproduced" } else { "not reproduced" });
            if hit {
                println!("VIOLATION property={} replay={}", ctx.prop, ctx.replay.as_ref().unwrap().display());
                return 1;
            }
            return 0;
        }
        return crate::with_uni!(body["detail"]["universe"].as_str().unwrap_or(""), U, replay::<U>(ctx, &body));
    }
    let runs: u64 = if prop == "C11" { ctx.tier.pick(3000, 60000) } else { ctx.tier.pick(64, 800) };
    let res = crate::core::pool::run_jobs(runs, |idx| {
        let mut out = RunOut::default();
        // degree-4 universes carry most runs (one in twelve with the hiding PCS); the other degrees /
        // reductions of the ALU table (base field, binomial 2 / 5 / 8, quintic trinomial) share the rest
        crate::with_uni!(crate::uni::uni_of(idx), U, one_run::<U>(ctx, &prop, idx, &mut out));
        // non-primitive table rows: every fourth run of C04; a thin sample of C11's many runs (the
        // row-level faults only: bus-level ones are skipped there)
        if (prop == "C04" && idx % 4 == 1) || (prop == "C11" && idx % 200 == 1) {
            npo_cells_run(ctx, idx, &mut out);
        }
        // sponge rows re-executed by a faulty witness generator (hook H3): every fourth run of C04
        if prop == "C04" && idx % 4 == 3 {
            crate::props::c04sponge::run(ctx, idx, None, &mut out);
            crate::props::c04sponge::run_merkle(ctx, idx, None, &mut out);
            crate::props::c04sponge::run_a4(ctx, idx, None, &mut out);
        }
        let mut d = crate::core::prng::Digest::new();
        d.u64(out.evals);
        for (k, v) in &out.counters {
            d.str(k);
            d.u64(*v);
        }
        out.digest = d.finish();
        out
    });
    let outs = match res {
        Ok(o) => o,
        Err(e) => {
            eprintln!("harness error: {e}");
            return 2;
        }
    };
    let mut total = RunOut::default();
    for o in outs {
        total.merge(o);
    }
    let rule = if prop == "C11" {
        "one run = one seeded primitive circuit (add, sub, mul, div, mul_add, bool checks, selects, connects, proper HornerAcc chains of 1..9 steps) in one of seven universes (KoalaBear/BabyBear binomial D4; BabyBear binomial D5; KoalaBear quintic trinomial D5; KoalaBear binomial D8; KoalaBear base field D1; Goldilocks binomial D2); lanes in {1,2,3,4,8}; Horner packing factor K in {2..5} (single-step, packed rows of every arity 2..K); the honest main matrices (captured from the real prover through hook H2) must satisfy every table constraint; then every cell of every active row and one padding row of the Const, Public and ALU tables (lane columns, packed-Horner intermediates, (a_t,c_t) step columns, b^2) is altered (+1, -1 or random), plus local re-solves, row swaps, Horner chains restarted from a forged accumulator and packed rows whose out is forged with the intermediates solved backwards, and p3's DebugConstraintBuilder evaluates the table's AIR on the forged matrix; oracle: the row-relation evaluator over the field extension, decoding rows from the table's preprocessed matrix (Horner step: out = acc*b + c - a with acc = lane-0 out of the row above, folded over the k steps of a packed row; intermediates and b^2 are free) (relation fails and constraints vanish = violation; honest row failing constraints = violation). distinct = distinct (universe, fault kind, op kind, column class)."
    } else {
        "one run = one seeded primitive circuit (incl. proper HornerAcc chains of 1..9 steps, most runs) + packing draw (lanes, Horner packing factor K in 2..5) in one of seven universes (KB/BB D4 most runs; BB binomial D5, KB quintic D5, KB D8, KB D1, Goldilocks D2), honest run, matrices captured through hook H2; byzantine prover alters every cell of every active row and one padding row of every table (cell_flip), re-solves a row locally after altering an operand (cell_local_resolve), swaps rows, restarts a Horner chain from a forged accumulator (the cell above the chain, whole chain recomputed, outputs propagated to their bus counterparts), forges the out of a packed Horner row with the intermediates solved backwards from a chosen slot (so that exactly one fold leg is broken), or substitutes a constant and propagates it; each forged trace is committed and proven by the real prover and checked by the commitment-binding verifier; ground truth (relations incl. Horner folds whose first accumulator is the circuit op's accumulator slot, constants, bus agreement; rows decoded from the ALU preprocessed matrix and matched against the circuit's ops) is computed per case; violation = accepted and ground truth invalid. distinct = distinct (universe, fault kind, op kind, column class)."
    };
    crate::core::report::finish(
        ctx,
        &total,
        runs,
        Spec {
            level: "fault_enumeration",
            rule,
            exhaustive: true,
            assumptions: vec![
                "exhaustive over single cells of the sampled circuits' active rows; circuits and packings are sampled".into(),
                "ground truth decodes the primitive tables only; circuits here contain no non-primitive tables (those are faulted in C06/C12)".into(),
                "Horner chains are proper (start at the constant zero, consecutive, intermediates unused): other shapes do not prove honestly (C10 findings)".into(),
                "release profile: p3's debug constraint checks are compiled out, so an invalid trace yields a proof".into(),
            ],
            components_real: vec!["CircuitRunner", "trace_to_matrix of every primitive table", "prove_all_tables (commit, quotient, FRI)", "verify_all_tables", "AluAir/ConstAir/PublicAir::eval via DebugConstraintBuilder (C11)"],
            components_stub: vec!["hook H2 overwrites the matrices before commitment (the fault)"],
            not_covered: vec!["Poseidon / recompose table cells (C06, C12 fault their inputs/outputs instead)", "binomial D6", "Goldilocks D5 / BabyBear D8"],
            extra: json!({}),
        },
    )
}
