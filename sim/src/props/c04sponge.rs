//! C04 sponge arm: the part of a chained permutation's input state that is *not* read from the
//! witness bus (zero-initialised on a chain start, inherited from the previous row on a
//! continuation) is the prover's to choose. A faulty witness generator (hook H3) changes one such
//! limb of one row of an `add_hash_slice` sponge, re-executes everything consistently and publishes
//! the digest that results; the statement "digest = hash(public inputs)" is then false, so the proof
//! has to be rejected (the AIR ties those limbs to zero / to the previous row's output).

use std::sync::Arc;
use std::sync::atomic::{AtomicUsize, Ordering};

use serde_json::json;

use crate::core::pool::observe;
use crate::core::prng::{Rng, mix};
use crate::core::report::{Ctx, RunOut};
use crate::pipe;
use crate::uni::{BuilderOpts, ProverCfg};

macro_rules! sponge_enable {
    (ext, $b:ident, $p2params:ty, $defperm:path) => {
        $b.enable_poseidon2_perm::<$p2params, _>(p3_circuit::ops::generate_poseidon2_trace::<EF, $p2params>, $defperm());
    };
    (q5, $b:ident, $p2params:ty, $defperm:path) => {
        $b.enable_poseidon2_perm_base::<$p2params, _>(p3_circuit::ops::generate_poseidon2_trace::<EF, $p2params>, p3_test_utils::koala_bear_quintic_params::LiftKoalaPermForQuintic::new($defperm()));
    };
}

macro_rules! sponge_free {
    ($fname:ident, $flavor:ident, $params:ident, $p2params:ty, $p2cfg:expr, $defperm:path, $uni:ty) => {
        /// Build the sponge circuit over `inputs` (optionally with the digest connected to two more
        /// public inputs), run it with the free-state fault `(hook call, limb, delta)` and return
        /// (circuit, traces, digest as probed, number of permutation rows, fault fired).
        #[allow(clippy::type_complexity)]
        fn $fname(
            inputs: &[Vec<u64>],
            reset_second: Option<usize>,
            digest: Option<&[Vec<u64>]>,
            fault: Option<(usize, usize, u64)>,
        ) -> Result<(p3_circuit::Circuit<p3_test_utils::$params::Challenge>, p3_circuit::tables::Traces<p3_test_utils::$params::Challenge>, Vec<Vec<u64>>, usize, bool), String> {
            use p3_circuit::ops::generate_recompose_trace;
            use p3_field::PrimeCharacteristicRing;
            use p3_test_utils::$params::{Challenge, F};
            type EF = Challenge;
            let r = observe(|| -> Result<_, String> {
                let cfg = $p2cfg;
                let mut b = p3_circuit::CircuitBuilder::<EF>::new();
                sponge_enable!($flavor, b, $p2params, $defperm);
                b.enable_recompose::<F>(generate_recompose_trace::<F, EF>);
                let xs: Vec<_> = inputs.iter().map(|_| b.public_input()).collect();
                // one sponge over everything, or two sponges chained without a reset in between
                let outs = match reset_second {
                    Some(k) if k > 0 && k < xs.len() => {
                        let _first = b.add_hash_slice(&cfg, &xs[..k], true).map_err(|e| format!("{e:?}"))?;
                        b.add_hash_slice(&cfg, &xs[k..], false).map_err(|e| format!("{e:?}"))?
                    }
                    _ => b.add_hash_slice(&cfg, &xs, true).map_err(|e| format!("{e:?}"))?,
                };
                let to_ef = |v: &Vec<u64>| -> EF { if v.len() == 1 { EF::from(F::from_u64(v[0])) } else { crate::gprog::f_from_u64s::<F, EF>(v) } };
                let mut pubs: Vec<EF> = inputs.iter().map(to_ef).collect();
                for (i, o) in outs.iter().enumerate() {
                    b.tag(*o, format!("d{i}")).map_err(|e| format!("{e:?}"))?;
                }
                if let Some(dg) = digest {
                    for (o, v) in outs.iter().zip(dg.iter()) {
                        let e = b.public_input();
                        b.connect(*o, e);
                        pubs.push(crate::gprog::f_from_u64s::<F, EF>(v));
                        let _ = &to_ef;
                    }
                }
                let n_out = outs.len();
                let circuit = b.build().map_err(|e| format!("{e:?}"))?;
                let rows = inputs.len().div_ceil(cfg.rate_ext()).max(1);
                let fired = Arc::new(AtomicUsize::new(0));
                let traces = {
                    let mut r = circuit.runner();
                    if let Some((call, limb, delta)) = fault {
                        let cnt = AtomicUsize::new(0);
                        let f2 = fired.clone();
                        r.set_verif_free_state_tamper(Box::new(move |_op, st: &mut [EF]| {
                            if cnt.fetch_add(1, Ordering::SeqCst) == call {
                                if let Some(x) = st.get_mut(limb) {
                                    *x += EF::from(F::from_u64(delta));
                                    f2.fetch_add(1, Ordering::SeqCst);
                                }
                            }
                        }));
                    }
                    r.set_public_inputs(&pubs).map_err(|e| format!("{e:?}"))?;
                    r.run().map_err(|e| format!("{e:?}"))?
                };
                let dg: Vec<Vec<u64>> = (0..n_out).map(|i| traces.probe(&format!("d{i}")).map(|v| crate::gprog::f_to_u64s::<F, EF>(v)).unwrap_or_default()).collect();
                Ok((circuit, traces, dg, rows, fired.load(Ordering::SeqCst) > 0))
            });
            match r {
                Ok(x) => x,
                Err(p) => Err(format!("panic: {p}")),
            }
        }
    };
}

sponge_free!(sponge_kb4, ext, koala_bear_params, p3_poseidon2_circuit_air::KoalaBearD4Width16, p3_circuit::ops::Poseidon2Config::KOALA_BEAR_D4_W16, p3_koala_bear::default_koalabear_poseidon2_16, crate::uni::Kb4);
sponge_free!(sponge_kb5q, q5, koala_bear_quintic_params, p3_circuit::ops::KoalaBearD1Width16, p3_circuit::ops::Poseidon2Config::KOALA_BEAR_D1_W16, p3_koala_bear::default_koalabear_poseidon2_16, crate::uni::Kb5q);
sponge_free!(sponge_bb4, ext, baby_bear_params, p3_poseidon2_circuit_air::BabyBearD4Width16, p3_circuit::ops::Poseidon2Config::BABY_BEAR_D4_W16, p3_baby_bear::default_babybear_poseidon2_16, crate::uni::Bb4);

/// One sponge, every (row, limb) free-state fault.
pub fn run(ctx: &Ctx, idx: u64, only: Option<(usize, usize)>, out: &mut RunOut) {
    let mut rng = Rng::new(ctx.seed, "C04-sponge", idx);
    let hs = mix(mix(ctx.seed, idx), 0x7370);
    foldhash::sim::set_seed(hs);
    // KoalaBear D4 W16, BabyBear D4 W16 (extension-field layout: 4 limbs, rate 2) and the compact
    // D=1 layout inside the quintic circuit (16 limbs, rate 8)
    let which = idx / 4 % 3;
    let order: u64 = if which == 1 { 0x78000001 } else { 0x7f000001 };
    let (rate, width, words) = if which == 2 { (8usize, 16usize, 1usize) } else { (2, 4, 4) };
    let n = rng.range(1, 4 * rate + 1);
    let inputs: Vec<Vec<u64>> = (0..n).map(|_| (0..words).map(|_| rng.below(order)).collect()).collect();
    // a second sponge continuing the first one's state (reset = false) one time in three
    let reset_second = if n >= 2 && rng.chance(1, 3) { Some(rng.range(1, n - 1)) } else { None };
    let delta = 1 + rng.below(order - 1);
    macro_rules! go {
        ($f:ident, $uni:ty, $uname:expr) => {{
            let honest = match $f(&inputs, reset_second, None, None) {
                Ok(h) => h,
                Err(_) => {
                    out.count("sponge_honest_build_failed");
                    return;
                }
            };
            let (_, _, honest_digest, _rows, _) = honest;
            // limbs absorbed by each permutation row (the hook is called once per row)
            let segs: Vec<usize> = match reset_second {
                Some(k) => vec![k, n - k],
                None => vec![n],
            };
            let chunks: Vec<usize> = segs.iter().flat_map(|&l| (0..l).step_by(rate).map(move |s0| (l - s0).min(rate))).collect();
            let rows = chunks.len();
            let cfg = ProverCfg { npo: BuilderOpts { poseidon: true, recompose: true }, ..ProverCfg::default() };
            // control: the honest digest, connected, proves and verifies
            let control = (|| -> Result<(), String> {
                let (c, t, _, _, _) = $f(&inputs, reset_second, Some(&honest_digest), None)?;
                let (keys, info) = pipe::keygen::<$uni>(&c, &cfg).map_err(|f| f.msg)?;
                let proof = pipe::prove::<$uni>(&keys, &t, &cfg, None).map_err(|f| f.msg)?;
                pipe::verify::<$uni>(&proof, &cfg, &info.commitment).map_err(|f| f.msg)
            })();
            out.evals += 1;
            if let Err(e) = control {
                out.violate(
                    format!("sponge_honest_rejected:{}", e.split(|c: char| !c.is_alphanumeric()).filter(|x| !x.is_empty()).take(3).collect::<Vec<_>>().join("_")),
                    format!("honest add_hash_slice sponge over {n} inputs does not prove and verify: {}", e.chars().take(200).collect::<String>()),
                    json!({"sponge": true, "idx": idx, "universe": $uname}),
                );
                return;
            }
            out.count("sponge_control_accepted");
            for call in 0..rows {
                for limb in 0..width {
                    if let Some((c, l)) = only {
                        if c != call || l != limb {
                            continue;
                        }
                    }
                    let fault = Some((call, limb, delta));
                    // pass 1: what digest does the faulty generator arrive at?
                    let Ok((_, _, forged_digest, _, fired)) = $f(&inputs, reset_second, None, fault) else {
                        out.count("sponge_fault_run_failed");
                        continue;
                    };
                    if !fired {
                        out.count("sponge_fault_not_fired");
                        continue;
                    }
                    if forged_digest == honest_digest {
                        // the limb is overwritten from the witness: nothing was forged
                        out.count("sponge_fault_overwritten_by_witness");
                        continue;
                    }
                    // pass 2: publish that digest and prove the re-executed trace
                    let accepted = (|| -> Result<(), String> {
                        let (c, t, _, _, _) = $f(&inputs, reset_second, Some(&forged_digest), fault)?;
                        let (keys, info) = pipe::keygen::<$uni>(&c, &cfg).map_err(|f| f.msg)?;
                        let proof = pipe::prove::<$uni>(&keys, &t, &cfg, None).map_err(|f| f.msg)?;
                        pipe::verify::<$uni>(&proof, &cfg, &info.commitment).map_err(|f| f.msg)
                    })();
                    out.evals += 1;
                    out.steps += 1;
                    let first_row_of_chain = call == 0;
                    let absorbed_limbs = chunks[call];
                    let class = format!(
                        "{}:{}:{}",
                        if first_row_of_chain { "chain_start" } else { "continuation" },
                        if limb < rate { "rate" } else { "capacity" },
                        if absorbed_limbs == rate { "full_absorb" } else { "partial_absorb" }
                    );
                    out.count(&format!("sponge_fired_{}", class.replace(':', "_")));
                    out.distinct.insert(crate::core::prng::fnv64(format!("sponge:{}:{class}", $uname).as_bytes()));
                    match accepted {
                        Ok(()) => out.violate(
                            format!("sponge_free_state:{class}"),
                            format!("add_hash_slice over {n} inputs ({}): limb {limb} of the input state of permutation row {call}, which is not read from the witness, was changed by the witness generator; the re-executed trace and the digest it yields (not the hash of the public inputs) were proven and ACCEPTED", $uname),
                            json!({"sponge": true, "idx": idx, "universe": $uname, "call": call, "limb": limb}),
                        ),
                        Err(_) => out.count("sponge_forged_rejected"),
                    }
                }
            }
        }};
    }
    match which {
        0 => go!(sponge_kb4, crate::uni::Kb4, "U-KB4"),
        1 => go!(sponge_bb4, crate::uni::Bb4, "U-BB4"),
        _ => go!(sponge_kb5q, crate::uni::Kb5q, "U-KB5Q"),
    }
}

macro_rules! merkle_enable {
    (p2, $b:ident) => {
        $b.enable_poseidon2_perm::<p3_poseidon2_circuit_air::KoalaBearD4Width16, _>(
            p3_circuit::ops::generate_poseidon2_trace::<EF, p3_poseidon2_circuit_air::KoalaBearD4Width16>,
            p3_koala_bear::default_koalabear_poseidon2_16(),
        );
    };
    (p1, $b:ident) => {
        $b.enable_poseidon1_perm::<p3_circuit::ops::poseidon1_perm::KoalaBearD4Width16, _>(
            p3_circuit::ops::generate_poseidon1_trace::<EF, p3_circuit::ops::poseidon1_perm::KoalaBearD4Width16>,
            p3_koala_bear::default_koalabear_poseidon1_16(),
        );
    };
}

/// A raw arity-2 Merkle path of `bits.len()` permutation rows (leaf and first sibling constants,
/// later siblings private data, direction bits constants), root tagged and optionally connected to
/// two public inputs; run with the free-state fault `(hook call, limb, delta)`.
macro_rules! merkle_free {
    ($fname:ident, $flavor:ident, $pcfg:expr) => {
        #[allow(clippy::type_complexity)]
        fn $fname(
            words: &[Vec<u64>],
            bits: &[bool],
            root: Option<&[Vec<u64>]>,
            fault: Option<(usize, usize, u64)>,
        ) -> Result<(p3_circuit::Circuit<p3_test_utils::koala_bear_params::Challenge>, p3_circuit::tables::Traces<p3_test_utils::koala_bear_params::Challenge>, Vec<Vec<u64>>, bool), String> {
            use p3_circuit::ops::{PermCall, PermConfig, generate_recompose_trace, perm_private_data};
            use p3_field::PrimeCharacteristicRing;
            use p3_test_utils::koala_bear_params::{Challenge, F};
            type EF = Challenge;
            let r = observe(|| -> Result<_, String> {
                let cfg: PermConfig = $pcfg.into();
                let mut b = p3_circuit::CircuitBuilder::<EF>::new();
                merkle_enable!($flavor, b);
                b.enable_recompose::<F>(generate_recompose_trace::<F, EF>);
                let val = |i: usize| crate::gprog::f_from_u64s::<F, EF>(&words[i]);
                let mut private = Vec::new();
                let mut last = Vec::new();
                for (r, &bit) in bits.iter().enumerate() {
                    let bit_expr = b.alloc_const(EF::from(F::from_bool(bit)), "mmcs_bit");
                    let inputs = if r == 0 {
                        vec![Some(b.alloc_const(val(0), "l0")), Some(b.alloc_const(val(1), "l1")), Some(b.alloc_const(val(2), "s0")), Some(b.alloc_const(val(3), "s1"))]
                    } else {
                        vec![None; 4]
                    };
                    let is_last = r + 1 == bits.len();
                    let (op_id, outs) = b
                        .add_perm(cfg, &PermCall { new_start: r == 0, merkle_path: true, mmcs_bit: Some(bit_expr), mmcs_bit2: None, inputs, out_ctl: vec![is_last, is_last], return_all_outputs: false, mmcs_index_sum: None })
                        .map_err(|e| format!("{e:?}"))?;
                    if r > 0 {
                        private.push((op_id, vec![val(2 + 2 * r), val(3 + 2 * r)]));
                    }
                    last = outs;
                }
                let outs: Vec<_> = last.iter().take(2).map(|o| o.ok_or("missing root output".to_string())).collect::<Result<_, _>>()?;
                for (i, o) in outs.iter().enumerate() {
                    b.tag(*o, format!("d{i}")).map_err(|e| format!("{e:?}"))?;
                }
                let mut pubs: Vec<EF> = Vec::new();
                if let Some(rt) = root {
                    for (o, v) in outs.iter().zip(rt.iter()) {
                        let e = b.public_input();
                        b.connect(*o, e);
                        pubs.push(crate::gprog::f_from_u64s::<F, EF>(v));
                    }
                } else {
                    // keep one public input so that the Public table is not empty
                    let e = b.public_input();
                    let _ = b.add(e, outs[0]);
                    pubs.push(EF::ONE);
                }
                let circuit = b.build().map_err(|e| format!("{e:?}"))?;
                let fired = Arc::new(AtomicUsize::new(0));
                let traces = {
                    let mut r = circuit.runner();
                    if let Some((call, limb, delta)) = fault {
                        let cnt = AtomicUsize::new(0);
                        let f2 = fired.clone();
                        r.set_verif_free_state_tamper(Box::new(move |_op, st: &mut [EF]| {
                            if cnt.fetch_add(1, Ordering::SeqCst) == call {
                                if let Some(x) = st.get_mut(limb) {
                                    *x += EF::from(F::from_u64(delta));
                                    f2.fetch_add(1, Ordering::SeqCst);
                                }
                            }
                        }));
                    }
                    r.set_public_inputs(&pubs).map_err(|e| format!("{e:?}"))?;
                    for (op_id, sib) in &private {
                        r.set_private_data(*op_id, perm_private_data(cfg, sib.clone())).map_err(|e| format!("{e:?}"))?;
                    }
                    r.run().map_err(|e| format!("{e:?}"))?
                };
                let dg: Vec<Vec<u64>> = (0..2).map(|i| traces.probe(&format!("d{i}")).map(|v| crate::gprog::f_to_u64s::<F, EF>(v)).unwrap_or_default()).collect();
                Ok((circuit, traces, dg, fired.load(Ordering::SeqCst) > 0))
            });
            match r {
                Ok(x) => x,
                Err(p) => Err(format!("panic: {p}")),
            }
        }
    };
}
merkle_free!(merkle_p2, p2, p3_circuit::ops::Poseidon2Config::KOALA_BEAR_D4_W16);
merkle_free!(merkle_p1, p1, p3_circuit::ops::Poseidon1Config::KOALA_BEAR_D4_W16);

/// Merkle sub-arm: every (row, limb) free-state fault on a raw arity-2 path, over the Poseidon2
/// and the Poseidon1 table.
pub fn run_merkle(ctx: &Ctx, idx: u64, only: Option<(usize, usize)>, out: &mut RunOut) {
    let mut rng = Rng::new(ctx.seed, "C04-merkle-free", idx);
    foldhash::sim::set_seed(mix(mix(ctx.seed, idx), 0x6d6b));
    let p1 = idx / 4 % 2 == 1;
    let order: u64 = 0x7f000001;
    let depth = rng.range(1, 5);
    let bits: Vec<bool> = (0..depth).map(|r| r > 0 && rng.chance(1, 2)).collect();
    let words: Vec<Vec<u64>> = (0..2 + 2 * depth).map(|_| (0..4).map(|_| rng.below(order)).collect()).collect();
    let delta = 1 + rng.below(order - 1);
    let cfg = ProverCfg { npo: BuilderOpts { poseidon: true, recompose: true }, poseidon1: p1, ..ProverCfg::default() };
    let uname = if p1 { "p1" } else { "p2" };
    let call_it = |root: Option<&[Vec<u64>]>, fault: Option<(usize, usize, u64)>| if p1 { merkle_p1(&words, &bits, root, fault) } else { merkle_p2(&words, &bits, root, fault) };
    let Ok((_, _, honest_root, _)) = call_it(None, None) else {
        out.count("merkle_free_honest_build_failed");
        return;
    };
    let prove = |root: &[Vec<u64>], fault: Option<(usize, usize, u64)>| -> Result<(), String> {
        let (c, t, _, _) = call_it(Some(root), fault)?;
        let (keys, info) = pipe::keygen::<crate::uni::Kb4>(&c, &cfg).map_err(|f| f.msg)?;
        let proof = pipe::prove::<crate::uni::Kb4>(&keys, &t, &cfg, None).map_err(|f| f.msg)?;
        pipe::verify::<crate::uni::Kb4>(&proof, &cfg, &info.commitment).map_err(|f| f.msg)
    };
    out.evals += 1;
    if let Err(e) = prove(&honest_root, None) {
        out.violate(
            format!("merkle_free_honest_rejected:{uname}"),
            format!("honest raw Merkle path of depth {depth} ({uname}) does not prove and verify: {}", e.chars().take(200).collect::<String>()),
            json!({"sponge": true, "merkle": true, "idx": idx, "universe": uname}),
        );
        return;
    }
    out.count("merkle_free_control_accepted");
    for call in 0..depth {
        for limb in 0..4usize {
            if let Some((c, l)) = only {
                if c != call || l != limb {
                    continue;
                }
            }
            let fault = Some((call, limb, delta));
            let Ok((_, _, forged_root, fired)) = call_it(None, fault) else {
                out.count("merkle_free_fault_run_failed");
                continue;
            };
            if !fired {
                out.count("merkle_free_fault_not_fired");
                continue;
            }
            if forged_root == honest_root {
                out.count("merkle_free_fault_overwritten_by_witness");
                continue;
            }
            let accepted = prove(&forged_root, fault);
            out.evals += 1;
            out.steps += 1;
            let class = format!("{uname}:{}:limb{limb}", if call == 0 { "chain_start" } else { "continuation" });
            out.count(&format!("merkle_free_fired_{}", class.replace(':', "_")));
            out.distinct.insert(crate::core::prng::fnv64(format!("merkle_free:{class}").as_bytes()));
            match accepted {
                Ok(()) => out.violate(
                    format!("merkle_free_state:{class}"),
                    format!("raw arity-2 Merkle path of depth {depth} ({uname} table): limb {limb} of the input state of path row {call}, which is inherited from the previous row, was changed by the witness generator; the re-executed trace and the root it yields (not the root of the leaf and siblings) were proven and ACCEPTED"),
                    json!({"sponge": true, "merkle": true, "idx": idx, "universe": uname, "call": call, "limb": limb}),
                ),
                Err(_) => out.count("merkle_free_forged_rejected"),
            }
        }
    }
}

/// Arity-4 sub-arm: the library's `verify_batch_circuit_arity4` opening (leaf sponge / leaf seed row,
/// 4-to-1 compressions) with every (row, limb) free-state fault; the cap is learnt in a first pass
/// (withheld private cap inputs that the computed root fills) and published in the second.
pub fn run_a4(ctx: &Ctx, idx: u64, only: Option<(usize, usize)>, out: &mut RunOut) {
    use crate::props::c08;
    let mut rng = Rng::new(ctx.seed, "C04-a4-free", idx);
    foldhash::sim::set_seed(mix(mix(ctx.seed, idx), 0x6134));
    let mut shape = c08::draw_shape(&mut rng, "U-KB4-A4", ctx.tier);
    shape.cap_height = 0;
    let max_h = shape.dims.iter().map(|d| d.0).max().unwrap();
    let index = rng.usize_below(max_h);
    let delta = 1 + rng.below(0x7f000000);
    let cfg = ProverCfg { npo: BuilderOpts { poseidon: true, recompose: true }, poseidon_w32: true, ..ProverCfg::default() };
    let learn = |fault| observe(|| c08::kb4a4::build_and_run_free(&shape, index, None, fault)).unwrap_or_else(Err);
    let Ok((_, t0, honest_cap, _)) = learn(None) else {
        out.count("a4_free_honest_learn_failed");
        return;
    };
    let Some(flags) = crate::props::c04::perm_row_flags::<p3_koala_bear::KoalaBear, _>(&t0, p3_circuit::ops::Poseidon2Config::KOALA_BEAR_D4_W32.into()) else {
        out.count("a4_free_no_trace");
        return;
    };
    let prove = |cap: &[Vec<u64>], fault| -> Result<(), String> {
        let (c, t, _, _) = observe(|| c08::kb4a4::build_and_run_free(&shape, index, Some(cap), fault)).unwrap_or_else(Err)?;
        let (keys, info) = pipe::keygen::<crate::uni::Kb4>(&c, &cfg).map_err(|f| f.msg)?;
        let proof = pipe::prove::<crate::uni::Kb4>(&keys, &t, &cfg, None).map_err(|f| f.msg)?;
        pipe::verify::<crate::uni::Kb4>(&proof, &cfg, &info.commitment).map_err(|f| f.msg)
    };
    out.evals += 1;
    if prove(&honest_cap, None).is_err() {
        // honest arity-4 openings that do not prove are C08 / C10's business (known finding there)
        out.count("a4_free_control_rejected_skipped");
        return;
    }
    out.count("a4_free_control_accepted");
    for (call, &(merkle, start)) in flags.iter().enumerate() {
        for limb in 0..8usize {
            if let Some((c, l)) = only {
                if c != call || l != limb {
                    continue;
                }
            } else if !rng.chance(1, ctx.tier.pick(3, 1)) {
                continue;
            }
            let fault = Some((call, limb, delta));
            let Ok((_, _, forged_cap, fired)) = learn(fault) else {
                out.count("a4_free_fault_run_failed");
                continue;
            };
            if !fired {
                out.count("a4_free_fault_not_fired");
                continue;
            }
            if forged_cap == honest_cap {
                out.count("a4_free_fault_overwritten_by_witness");
                continue;
            }
            let accepted = prove(&forged_cap, fault);
            out.evals += 1;
            out.steps += 1;
            let class = format!("{}:{}", match (merkle, start) { (true, true) => "merkle_start", (true, false) => "merkle", (false, true) => "sponge_start", _ => "sponge" }, if limb < 6 { "rate" } else { "capacity" });
            out.count(&format!("a4_free_fired_{}", class.replace(':', "_")));
            out.distinct.insert(crate::core::prng::fnv64(format!("a4_free:{class}").as_bytes()));
            match accepted {
                Ok(()) => out.violate(
                    format!("a4_free_state:{class}"),
                    format!("arity-4 MMCS opening ({:?}, index {index}): limb {limb} of the input state of permutation row {call} ({class}), which is not read from the witness, was changed by the witness generator; the re-executed trace and the cap it yields (not the commitment of the opened values) were proven and ACCEPTED", shape.dims),
                    json!({"sponge": true, "a4": true, "idx": idx, "universe": "U-KB4-A4", "call": call, "limb": limb}),
                ),
                Err(_) => out.count("a4_free_forged_rejected"),
            }
        }
    }
}
