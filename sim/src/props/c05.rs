//! C05 — the in-circuit Fiat-Shamir transcript equals the native transcript.
//! Seeded challenger operation histories (observe / observe_ext / sample / sample_ext /
//! sample_bits / check_pow_witness / clear) are replayed against the in-circuit challenger and
//! against the native `DuplexChallenger` reference model; every sampled value (and one residual
//! sample after the last step) must match. Observed values are public inputs, never constants.

use serde_json::{Value, json};

use crate::chal::{self, History};
use crate::core::pool::observe;
use crate::core::prng::{Rng, mix};
use crate::core::report::{Ctx, RunOut, Spec};

pub struct Outcome {
    pub build_err: Option<String>,
    pub run_err: Option<String>,
    pub mismatch: Option<String>,
    pub native_pow_ok: bool,
    pub states: Vec<(usize, usize, u8)>,
    pub ops: usize,
    pub perms: usize,
}

macro_rules! c05_cfg {
    ($fname:ident, $m:ident) => {
        pub fn $fname(h: &History, recompose: bool, hash_seed: u64) -> Outcome {
            use crate::chal::$m as U;
            foldhash::sim::set_seed(hash_seed);
            let mut out = Outcome { build_err: None, run_err: None, mismatch: None, native_pow_ok: true, states: vec![], ops: 0, perms: 0 };
            let built = observe(|| {
                let mut cb = U::builder_with(U::make_perm(), recompose);
                let r = U::replay(h, &mut cb)?;
                let c = cb.build().map_err(|e| format!("{e:?}"))?;
                Ok::<_, String>((c, r))
            });
            let (circuit, rep) = match built {
                Ok(Ok(x)) => x,
                Ok(Err(e)) => {
                    out.build_err = Some(e);
                    return out;
                }
                Err(p) => {
                    out.build_err = Some(format!("panic: {p}"));
                    return out;
                }
            };
            out.native_pow_ok = rep.native_pow_ok;
            out.states = rep.states.clone();
            out.ops = circuit.ops.len();
            out.perms = rep.permutations_estimate;
            let ran = observe(|| {
                let mut r = circuit.runner();
                r.set_public_inputs(&rep.publics).map_err(|e| format!("{e:?}"))?;
                r.run().map_err(|e| format!("{e:?}"))
            });
            match ran {
                Ok(Ok(traces)) => {
                    for (tag, v) in &rep.expected {
                        match traces.probe(tag) {
                            Some(got) if got == v => {}
                            Some(got) => {
                                out.mismatch = Some(format!("{tag}: circuit {:?} native {:?}", crate::gprog::f_to_u64s::<U::F, U::EF>(got), crate::gprog::f_to_u64s::<U::F, U::EF>(v)));
                                break;
                            }
                            None => {
                                out.mismatch = Some(format!("{tag}: no such probe"));
                                break;
                            }
                        }
                    }
                }
                Ok(Err(e)) => out.run_err = Some(e),
                Err(p) => out.run_err = Some(format!("panic: {p}")),
            }
            out
        }
    };
}
c05_cfg!(run_kb4, kb4);
c05_cfg!(run_bb4, bb4);
c05_cfg!(run_kb1, kb1);
c05_cfg!(run_kb1p1, kb1p1);
c05_cfg!(run_gl2, gl2);
c05_cfg!(run_gl2p1, gl2p1);
c05_cfg!(run_kb5q1, kb5q1);

pub const CONFIGS: [&str; 7] = ["kb4", "bb4", "kb1", "kb1p1", "gl2", "gl2p1", "kb5q1"];

pub fn cfg_params(cfg: &str) -> (u64, usize, usize) {
    use p3_field::PrimeField64;
    match cfg {
        "kb4" => (p3_koala_bear::KoalaBear::ORDER_U64, 4, 8),
        "bb4" => (p3_baby_bear::BabyBear::ORDER_U64, 4, 8),
        "kb1" | "kb1p1" => (p3_koala_bear::KoalaBear::ORDER_U64, 1, 8),
        "kb5q1" | "kb5q1p1" => (p3_koala_bear::KoalaBear::ORDER_U64, 5, 8),
        _ => (p3_goldilocks::Goldilocks::ORDER_U64, 2, 4),
    }
}

pub fn run_cfg(cfg: &str, h: &History, recompose: bool, hash_seed: u64) -> Outcome {
    match cfg {
        "kb4" => run_kb4(h, recompose, hash_seed),
        "bb4" => run_bb4(h, recompose, hash_seed),
        "kb1" => run_kb1(h, recompose, hash_seed),
        "kb1p1" => run_kb1p1(h, recompose, hash_seed),
        "gl2" => run_gl2(h, recompose, hash_seed),
        "kb5q1" => run_kb5q1(h, recompose, hash_seed),
        _ => run_gl2p1(h, recompose, hash_seed),
    }
}

/// Oracle for one history; returns (key, clause) on violation.
pub fn judge(o: &Outcome) -> Option<(String, String)> {
    if let Some(e) = &o.build_err {
        return Some(("build_failed".into(), format!("building the challenger circuit failed: {e}")));
    }
    if o.native_pow_ok {
        if let Some(e) = &o.run_err {
            let k = e.split(|c: char| !c.is_alphanumeric()).find(|x| !x.is_empty()).unwrap_or("err");
            return Some((format!("honest_run_failed:{k}"), format!("native transcript is fine but the circuit run failed: {}", e.chars().take(300).collect::<String>())));
        }
        if let Some(m) = &o.mismatch {
            return Some(("sample_mismatch".into(), format!("sampled value differs from the native challenger: {m}")));
        }
    } else if o.run_err.is_none() {
        return Some(("bad_pow_accepted".into(), "native check_witness rejects the witness but the circuit run succeeded".into()));
    }
    None
}

fn drop_op(h: &History, i: usize) -> History {
    let mut ops = h.ops.clone();
    ops.remove(i);
    History { ops }
}

pub fn minimise(cfg: &str, h: &History, recompose: bool, hs: u64, key: &str) -> History {
    let mut cur = h.clone();
    let mut progress = true;
    while progress {
        progress = false;
        let mut i = cur.ops.len();
        while i > 0 {
            i -= 1;
            if cur.ops.len() <= 1 {
                break;
            }
            let cand = drop_op(&cur, i);
            if judge(&run_cfg(cfg, &cand, recompose, hs)).is_some_and(|(k, _)| k == key) {
                cur = cand;
                progress = true;
            }
        }
    }
    cur
}

pub fn one_run(ctx: &Ctx, idx: u64, out: &mut RunOut) {
    let mut rng = Rng::new(ctx.seed, "C05", idx);
    let cfg = CONFIGS[(idx % 7) as usize];
    let (order, d, rate) = cfg_params(cfg);
    for k in 0..8u64 {
        let h = chal::gen_history(&mut rng, order, d, rate, ctx.tier.pick(24, 40), true);
        let recompose = rng.chance(1, 2);
        // every other history goes through the slice / vector entry points of the trait
        let h = if k % 2 == 1 { chal::sliceify(&mut Rng::new(ctx.seed, "C05-slices", idx * 8 + k), &h) } else { h };
        let hs = mix(mix(ctx.seed, idx), k);
        let o = run_cfg(cfg, &h, recompose, hs);
        out.evals += 1;
        out.steps += h.ops.len() as u64;
        out.count(&format!("cfg_{cfg}"));
        out.count_n("permutations", o.perms as u64);
        if !o.native_pow_ok {
            out.count("histories_with_bad_pow");
        }
        for s in &o.states {
            out.distinct.insert(crate::core::prng::fnv64(format!("{cfg}:{recompose}:{s:?}").as_bytes()));
        }
        if out.samples.is_empty() {
            out.samples.push(json!({"config": cfg, "recompose_table": recompose, "history": h, "circuit_ops": o.ops}));
        }
        if let Some((key, clause)) = judge(&o) {
            let m = minimise(cfg, &h, recompose, hs, &key);
            let clause_m = judge(&run_cfg(cfg, &m, recompose, hs)).map(|x| x.1).unwrap_or(clause);
            out.violate(format!("{key}:{cfg}"), clause_m, json!({"config": cfg, "recompose_table": recompose, "history": m, "hash_seed": hs}));
        }
    }
}

pub fn replay(ctx: &Ctx, body: &Value) -> i32 {
    let d = &body["detail"];
    let h: History = match serde_json::from_value(d["history"].clone()) {
        Ok(h) => h,
        Err(e) => {
            eprintln!("harness error: bad replay file: {e}");
            return 2;
        }
    };
    let cfg = d["config"].as_str().unwrap_or("kb4").to_string();
    let o = run_cfg(&cfg, &h, d["recompose_table"].as_bool().unwrap_or(true), d["hash_seed"].as_u64().unwrap_or(1));
    match judge(&o) {
        Some((k, c)) => {
            println!("VIOLATION property={} replay={}", ctx.prop, ctx.replay.as_ref().unwrap().display());
            println!("  key={k}:{cfg} clause={c}");
            1
        }
        None => {
            println!("replay did not reproduce");
            0
        }
    }
}

pub fn main(ctx: &Ctx) -> i32 {
    if let Some(path) = &ctx.replay {
        let body: Value = match std::fs::read_to_string(path).ok().and_then(|s| serde_json::from_str(&s).ok()) {
            Some(b) => b,
            None => {
                eprintln!("harness error: cannot read replay file");
                return 2;
            }
        };
        return replay(ctx, &body);
    }
    let runs: u64 = ctx.tier.pick(4000, 80000);
    let res = crate::core::pool::run_jobs(runs, |idx| {
        let mut out = RunOut::default();
        one_run(ctx, idx, &mut out);
        let mut d = crate::core::prng::Digest::new();
        d.u64(out.evals);
        for (k, v) in &out.counters {
            d.str(k);
            d.u64(*v);
        }
        out.digest = d.finish();
        out
    });
    let outs = match res {
        Ok(o) => o,
        Err(e) => {
            eprintln!("harness error: {e}");
            return 2;
        }
    };
    let mut total = RunOut::default();
    for o in outs {
        total.merge(o);
    }
    crate::core::report::finish(
        ctx,
        &total,
        runs,
        Spec {
            level: "exploration",
            rule: "seeded challenger histories of 1..24/40 operations (observe, observe_ext, sample, sample_ext, observe_slice / observe_ext_slice / sample_ext_vec incl. empty ones (every other history), sample_bits(0..20), check_pow_witness(0..6 bits, valid witness ground natively or witness+1), clear; biased so that the input buffer crosses RATE, the output buffer drains exactly, observes follow partial drains, clear lands mid-buffer) in seven configurations (KoalaBear/BabyBear D4 W16 Poseidon2, KoalaBear D1 W16 Poseidon2 and Poseidon1, Goldilocks D2 W8 Poseidon2 and Poseidon1, KoalaBear quintic circuit with the base-field D1 W16 Poseidon2 challenger), recompose table on/off, seeded hash order; every sampled target is tagged and compared with the native DuplexChallenger, plus one residual sample. distinct = distinct (config, recompose, input-buffer length, output-buffer length, op kind) states reached.",
            exhaustive: false,
            assumptions: vec!["p3_challenger::DuplexChallenger is the reference model".into()],
            components_real: vec!["CircuitChallenger", "CircuitBuilder (perm NPO, recompose, decompositions)", "CircuitRunner", "Poseidon executors"],
            components_stub: vec![],
            not_covered: vec!["width-24/32 permutations"],
            extra: json!({}),
        },
    )
}
