//! C07 — in-circuit FRI verification agrees with native FRI verification.
//! Decided through the same prover → transport → {native, in-circuit} simulation as C01, with the
//! fault space focused on what the FRI verifier consumes (commitments, claimed evaluations, the
//! whole opening proof: query openings, sibling values, commit-phase commitments, final
//! polynomial, PoW witnesses, per-step log_arity) and *all five* fault kinds on every such leaf,
//! over a shape swarm chosen for FRI: mixed matrix heights (batch proofs whose tables have
//! different heights, down to single-row tables opened at two points), every arity schedule the
//! parameter set allows (max_log_arity 1..4 incl. mixed schedules), blow-up 1..3, final
//! polynomial log length 0..2, 1..4 queries, PoW bits 0..8, cap height 0..2.

use serde_json::{Value, json};

use crate::core::prng::{Rng, mix};
use crate::core::report::{Ctx, RunOut, Spec};
use crate::gprog::GenCfg;
use crate::props::c01::{self, ShapeSpec};
use crate::rec::{FriShape, RecUni};

pub fn draw<R: RecUni>(rng: &mut Rng, ctx: &Ctx) -> ShapeSpec {
    let fri = FriShape {
        log_blowup: (*rng.pick(&[1, 2, 3])).max(R::MIN_LOG_BLOWUP),
        log_final_poly_len: *rng.pick(&[0, 0, 1, 2]),
        max_log_arity: *rng.pick(&[1, 2, 3, 4]),
        num_queries: *rng.pick(&[1, 2, 3]),
        commit_pow_bits: *rng.pick(&[0, 2, 5]),
        query_pow_bits: *rng.pick(&[0, 3, 8]),
        cap_height: *rng.pick(&[0, 1, 2]),
    };
    let kind = if rng.chance(2, 3) || !R::HAS_UNI { "batch" } else { "uni" };
    let log_n = rng.range(0, ctx.tier.pick(6, 8));
    let program = if kind == "batch" {
        // table heights differ: few constants, 0..many public inputs, 1..many ALU ops
        let gcfg = GenCfg {
            min_calls: *rng.pick(&[3, 3, 8, 20]),
            max_calls: *rng.pick(&[4, 10, 30, ctx.tier.pick(60, 120)]),
            hints: false,
            horner: *rng.pick(&[0, 1]),
            creator_aliasing: false,
            claim_privates: true,
            div: true,
            recompose_npo: false,
        };
        let gcfg = GenCfg { max_calls: gcfg.max_calls.max(gcfg.min_calls), ..gcfg };
        Some(R::gen_program(rng, &gcfg))
    } else {
        None
    };
    ShapeSpec {
        universe: R::NAME.to_string(),
        kind: kind.to_string(),
        fri,
        log_n,
        program,
        public_lanes: *rng.pick(&[1, 2, 8]),
        alu_lanes: *rng.pick(&[1, 4, 8]),
        focus: Some("fri".into()),
    }
}

/// PCS-level arm: FRI-only pair with fixed honest challenges (see frionly.rs).
pub fn pcs_arm(ctx: &Ctx, idx: u64, out: &mut RunOut) {
    use crate::frionly::{FFault, FriOnlyShape, run_case};
    let mut rng = Rng::new(ctx.seed, "C07-pcs", idx);
    let uni = if idx % 2 == 0 { "U-KB4" } else { "U-BB4" };
    let fri = FriShape {
        log_blowup: *rng.pick(&[1, 2]),
        log_final_poly_len: *rng.pick(&[0, 0, 1]),
        max_log_arity: *rng.pick(&[1, 2, 3]),
        num_queries: *rng.pick(&[1, 2]),
        commit_pow_bits: *rng.pick(&[0, 1]),
        query_pow_bits: *rng.pick(&[0, 2]),
        cap_height: *rng.pick(&[0, 0, 1]),
    };
    let nb = rng.range(1, 3);
    let top = rng.range(fri.log_final_poly_len + 2, ctx.tier.pick(5, 7));
    let mut batches: Vec<Vec<(usize, usize, usize)>> = Vec::new();
    for b in 0..nb {
        let nm = rng.range(1, 3);
        let mut v = Vec::new();
        for m in 0..nm {
            let log_size = if b == 0 && m == 0 { top } else { *rng.pick(&[0, 0, 1, 2, 3, top.saturating_sub(1), top]) }.min(top);
            v.push((log_size, rng.range(1, 4), rng.range(1, 2)));
        }
        batches.push(v);
    }
    let shape = FriOnlyShape { universe: uni.to_string(), batches, fri, seed: rng.next_u64() };
    let none = FFault { kind: "none".into(), path: String::new(), pos: 0 };
    let base = match run_case(&shape, &none) {
        Ok(o) => o,
        Err(e) => {
            out.count(&format!("pcs_shape_skipped_{}", e.split(|c: char| !c.is_alphanumeric()).find(|x| !x.is_empty()).unwrap_or("x")));
            return;
        }
    };
    out.evals += 1;
    out.count("pcs_honest_cases");
    if out.samples.len() < 2 {
        out.samples.push(json!({"pcs_level_shape": shape}));
    }
    if !(base.native_ok && base.circuit.is_ok()) {
        out.violate(
            format!("pcs:honest:native={} circuit={}", base.native_ok, base.circuit.is_ok()),
            format!("PCS-level honest opening: native {} circuit {:?}", base.native_ok, base.circuit),
            json!({"pcs_shape": shape, "fault": none}),
        );
        return;
    }
    let has_const_two_points = shape.batches.iter().flatten().any(|m| m.0 == 0 && m.2 == 2);
    if has_const_two_points {
        out.count("pcs_shapes_with_height1_matrix_opened_at_two_points");
    }
    let mut plans: Vec<FFault> = (0..base.n_evals).map(|p| FFault { kind: "eval".into(), path: String::new(), pos: p }).collect();
    plans.extend((0..base.n_index_bits).map(|p| FFault { kind: "index_bit".into(), path: String::new(), pos: p }));
    for p in 0..base.n_cap_words {
        if ctx.tier == crate::core::report::Tier::Thorough || rng.chance(1, 4) {
            plans.push(FFault { kind: "cap".into(), path: String::new(), pos: p });
        }
    }
    for l in &base.proof_leaves {
        if ctx.tier == crate::core::report::Tier::Thorough || rng.chance(1, 6) {
            plans.push(FFault { kind: "proof".into(), path: l.clone(), pos: 0 });
        }
    }
    for f in plans {
        let o = match run_case(&shape, &f) {
            Ok(o) => o,
            Err(_) => {
                out.count("pcs_fault_not_applicable");
                continue;
            }
        };
        out.evals += 1;
        out.steps += 1;
        out.count(&format!("pcs_fired_{}", f.kind));
        let class = if f.kind == "proof" { crate::tree::path_class(&crate::tree::numeric_leaves(&serde_json::Value::Null).first().cloned().unwrap_or_default()) + &erase_idx(&f.path) } else { f.kind.clone() };
        out.distinct.insert(crate::core::prng::fnv64(format!("pcs:{uni}:{class}").as_bytes()));
        let mut bad = if f.kind == "index_bit" { o.circuit.is_ok() } else { o.native_ok != o.circuit.is_ok() };
        // With a Merkle cap of height > 0 a cap word may belong to an entry no query selects: the
        // native verifier still rejects (commitments are in its transcript) while the circuit,
        // run with the honest challenges, legitimately does not look at that entry.
        let is_cap_word = f.kind == "cap" || class.contains(".cap[]");
        if bad && is_cap_word && shape.fri.cap_height > 0 && !o.native_ok && o.circuit.is_ok() {
            out.count("pcs_unselected_cap_entry_not_compared");
            bad = false;
        }
        if bad {
            out.violate(
                format!("pcs:{class}:native={} circuit={}", if o.native_ok { "accept" } else { "reject" }, if o.circuit.is_ok() { "accept" } else { "reject" }),
                format!("PCS-level {f:?}: native {} but in-circuit FRI verifier (honest challenges) {:?}", if o.native_ok { "accepts" } else { "rejects" }, o.circuit),
                json!({"pcs_shape": shape, "fault": f}),
            );
        }
    }
}

fn erase_idx(p: &str) -> String {
    let mut s = String::new();
    let mut skip = false;
    for ch in p.chars() {
        match ch {
            '[' => {
                skip = true;
                s.push_str("[]");
            }
            ']' => skip = false,
            c if !skip => s.push(c),
            _ => {}
        }
    }
    s
}

pub fn main(ctx: &Ctx) -> i32 {
    if let Some(path) = &ctx.replay {
        let body: Value = match std::fs::read_to_string(path).ok().and_then(|s| serde_json::from_str(&s).ok()) {
            Some(b) => b,
            None => {
                eprintln!("harness error: cannot read replay file");
                return 2;
            }
        };
        if !body["detail"]["pcs_shape"].is_null() {
            let shape: crate::frionly::FriOnlyShape = serde_json::from_value(body["detail"]["pcs_shape"].clone()).unwrap();
            let f: crate::frionly::FFault = serde_json::from_value(body["detail"]["fault"].clone()).unwrap();
            return match crate::frionly::run_case(&shape, &f) {
                Ok(o) => {
                    println!("replay: native_ok={} circuit={:?}", o.native_ok, o.circuit);
                    let bad = if f.kind == "none" { !(o.native_ok && o.circuit.is_ok()) } else if f.kind == "index_bit" { o.circuit.is_ok() } else { o.native_ok != o.circuit.is_ok() };
                    if bad {
                        println!("VIOLATION property={} replay={}", ctx.prop, path.display());
                        1
                    } else {
                        println!("replay did not reproduce");
                        0
                    }
                }
                Err(e) => {
                    println!("replay: {e}");
                    0
                }
            };
        }
        return c01::replay(ctx, &body);
    }
    let runs: u64 = ctx.tier.pick(16, 320);
    let res = crate::core::pool::run_jobs(runs, |idx| {
        let mut out = RunOut::default();
        let mut rng = Rng::new(ctx.seed, "C07", idx);
        foldhash::sim::set_seed(mix(ctx.seed, idx));
        let uni = crate::rec::universe_of(idx);
        let spec = crate::with_rec_universe!(uni, U, draw::<U>(&mut rng, ctx));
        if out.samples.is_empty() {
            out.samples.push(json!({"idx": idx, "shape": {"universe": spec.universe, "kind": spec.kind, "fri": spec.fri, "log_n": spec.log_n, "lanes": [spec.public_lanes, spec.alu_lanes], "program_calls": spec.program.as_ref().map(|p| p.calls.len())}}));
        }
        out.count(&format!("arity_max_{}", spec.fri.max_log_arity));
        out.count(&format!("final_poly_log_{}", spec.fri.log_final_poly_len));
        crate::with_rec_universe!(uni, U, c01::run_shape::<U>(ctx.seed, idx, &spec, ctx.tier, None, &mut out));
        for j in 0..ctx.tier.pick(4u64, 8) {
            pcs_arm(ctx, idx * 16 + j, &mut out);
        }
        let mut d = crate::core::prng::Digest::new();
        d.u64(out.evals);
        for (k, v) in &out.counters {
            d.str(k);
            d.u64(*v);
        }
        out.digest = d.finish();
        out
    });
    let outs = match res {
        Ok(o) => o,
        Err(e) => {
            eprintln!("harness error: {e}");
            return 2;
        }
    };
    let mut total = RunOut::default();
    for o in outs {
        total.merge(o);
    }
    crate::core::report::finish(
        ctx,
        &total,
        runs,
        Spec {
            level: "fault_enumeration",
            rule: "one run = one FRI-oriented proof shape (see module doc): honest proof -> tree; every leaf under commitments / opened_values / opening_proof is corrupted with all five fault kinds and packed into the circuit built for the honest shape (fixed mode); every log_arity leaf and a sample of value leaves additionally in rebuild mode; native verdict == in-circuit verdict. distinct = distinct (kind, mode, leaf class).",
            exhaustive: true,
            assumptions: vec![
                "exhaustive over single-leaf faults of the FRI part of each sampled shape (fixed mode); shapes sampled".into(),
                "FRI is exercised through the PCS-level verifier inside the STARK verifiers (challenges derived in-circuit), not through verify_fri_circuit with externally supplied challenges".into(),
            ],
            components_real: vec!["TwoAdicFriPcs commit/open/verify", "RecursivePcs::get_challenges_circuit / verify_circuit", "verify_fri_circuit", "in-circuit MMCS", "CircuitChallenger"],
            components_stub: vec!["transport = serde_json tree"],
            not_covered: vec!["hiding (ZK) FRI", "arity-4 MMCS", "matrices opened at more than two points"],
            extra: json!({}),
        },
    )
}
