//! C10 — every buildable circuit with satisfying inputs can be proven and verified (the fault-free
//! control arm of the byzantine-prover simulator) and C09 — one creator / balanced multiplicities
//! (invariant monitor evaluated on every circuit compiled here).

use serde_json::json;

use crate::bus;
use crate::core::pool::observe;
use crate::core::prng::{Rng, mix};
use crate::core::report::{Ctx, RunOut, Spec};
use crate::gprog::{self, GenCfg, Program};
use crate::pipe::{self, Fail, Stage};
use crate::uni::{BuilderOpts, CircuitUni, ProverCfg};

/// Structural classifier for Horner steps. The row-chained ALU AIR takes the accumulator from the
/// previous row of lane 0 and starts every maximal run of consecutive HornerAcc ops after an
/// all-zero separator row; so a run is provable only if its first accumulator is the constant
/// zero and every later accumulator is the previous step's output.
pub fn horner_class<U: CircuitUni>(c: &p3_circuit::Circuit<U::EF>) -> Option<&'static str> {
    use p3_field::PrimeCharacteristicRing;
    let zero_slots: Vec<p3_circuit::WitnessId> = c
        .ops
        .iter()
        .filter_map(|op| match op {
            p3_circuit::Op::Const { out, val } if *val == U::EF::ZERO => Some(*out),
            _ => None,
        })
        .collect();
    let mut prev_horner_out: Option<p3_circuit::WitnessId> = None;
    let mut bad = None;
    // outputs of non-final steps of a run (candidates for packing into one row, where they are
    // not put on the bus) that some other op reads as an operand
    let mut alu: Vec<(bool, [Option<p3_circuit::WitnessId>; 3], p3_circuit::WitnessId)> = Vec::new();
    let mut other_reads: Vec<p3_circuit::WitnessId> = Vec::new();
    for op in &c.ops {
        match op {
            p3_circuit::Op::Alu { kind, a, b, c, out, .. } => {
                alu.push((*kind == p3_circuit::AluOpKind::HornerAcc, [Some(*a), Some(*b), *c], *out))
            }
            p3_circuit::Op::NonPrimitiveOpWithExecutor { inputs, .. } => other_reads.extend(inputs.iter().flatten().copied()),
            _ => {}
        }
    }
    // a private input / hint output whose first ALU use is a Horner step: packed Horner rows only
    // support reader roles for their operands
    {
        let mut given: Vec<p3_circuit::WitnessId> = c.private_input_rows.clone();
        for op in &c.ops {
            if let p3_circuit::Op::Hint { outputs, .. } = op {
                given.extend(outputs.iter().copied());
            }
        }
        let mut used: Vec<p3_circuit::WitnessId> = Vec::new();
        for (is_h, opers, out) in &alu {
            if *is_h {
                for w in opers.iter().flatten() {
                    if given.contains(w) && !used.contains(w) {
                        bad = Some("horner_operand_first_use");
                    }
                }
            }
            used.extend(opers.iter().flatten().copied());
            used.push(*out);
        }
    }
    for i in 0..alu.len() {
        let non_final = alu[i].0 && alu.get(i + 1).is_some_and(|n| n.0);
        if non_final {
            let o = alu[i].2;
            // ... or that shares its slot with a Const / Public row (connect alias): either way the
            // slot lives on the bus elsewhere while the packed row does not carry it
            let aliased = c.public_rows.contains(&o) || c.ops.iter().any(|op| matches!(op, p3_circuit::Op::Const { out, .. } if *out == o));
            let read_elsewhere = aliased
                || other_reads.contains(&o)
                || alu.iter().enumerate().any(|(j, r)| j != i && (r.1.iter().any(|x| *x == Some(o)) || (r.2 == o)));
            if read_elsewhere {
                bad = Some("horner_intermediate_out_read");
            }
        }
    }
    for op in &c.ops {
        if let p3_circuit::Op::Alu { kind, out, intermediate_out, .. } = op {
            if *kind == p3_circuit::AluOpKind::HornerAcc {
                let acc = intermediate_out.unwrap_or(p3_circuit::WitnessId(u32::MAX));
                match prev_horner_out {
                    None => {
                        if !zero_slots.contains(&acc) {
                            bad = Some("horner_improper_chain");
                        }
                    }
                    Some(po) => {
                        if acc != po {
                            bad = Some("horner_improper_chain");
                        }
                    }
                }
                prev_horner_out = Some(*out);
            } else {
                prev_horner_out = None;
            }
        }
    }
    bad
}

pub struct Outcome {
    pub fail: Option<Fail>,
    pub issues: Vec<String>,
    pub horner: Option<&'static str>,
    pub ops: usize,
}

/// Honest pipeline for one program under one configuration and hash seed.
pub fn run_pipeline<U: CircuitUni>(p: &Program, opts: BuilderOpts, cfg: &ProverCfg, hash_seed: u64) -> Result<Outcome, String> {
    foldhash::sim::set_seed(hash_seed);
    let circuit = match pipe::build_circuit::<U>(p, opts, false) {
        Ok(c) => c,
        Err(f) => return Err(format!("builder rejected: {}", f.msg)),
    };
    let horner = horner_class::<U>(&circuit);
    let ops = circuit.ops.len();
    let mut issues = Vec::new();
    let mut fail = None;
    let r = (|| -> Result<(), Fail> {
        let traces = pipe::run_circuit::<U>(&circuit, p)?;
        let (keys, info) = pipe::keygen::<U>(&circuit, cfg)?;
        let acct = bus::account(&info, <U::BF as p3_field::PrimeField64>::ORDER_U64, U::D, opts.poseidon || opts.recompose);
        issues = bus::issue_classes(&acct);
        let proof = pipe::prove::<U>(&keys, &traces, cfg, None)?;
        pipe::verify::<U>(&proof, cfg, &info.commitment)?;
        Ok(())
    })();
    if let Err(f) = r {
        fail = Some(f);
    }
    Ok(Outcome { fail, issues, horner, ops })
}

fn err_kind(e: &str) -> String {
    e.split(|c: char| !c.is_alphanumeric()).find(|s| !s.is_empty()).unwrap_or("err").to_string()
}

/// C10 key for a failed pipeline: the stage plus the explanation by structural classifiers.
pub fn c10_key(o: &Outcome) -> Option<String> {
    let f = o.fail.as_ref()?;
    if f.stage == Stage::Keygen || f.stage == Stage::Run {
        return Some(format!("{}{}:{}", f.stage.name(), if f.panicked { "_panic" } else { "" }, err_kind(&f.msg)));
    }
    // primary explanation by priority, so that the key is stable under unrelated program content
    let prio = ["two_creators", "reads_without_creator", "creator_mult_mismatch", "floating_operand"];
    let why = if let Some(h) = o.horner {
        h.to_string()
    } else if let Some(c) = prio.iter().find_map(|p| o.issues.iter().find(|i| i.starts_with(p))) {
        c.clone()
    } else {
        format!("unexplained:{}", err_kind(&f.msg))
    };
    Some(format!("{}{}:{}", f.stage.name(), if f.panicked { "_panic" } else { "" }, why))
}

pub fn one_run<U: CircuitUni>(ctx: &Ctx, idx: u64, c09: bool, out: &mut RunOut) {
    let label = if c09 { "C09" } else { "C10" };
    let mut rng = Rng::new(ctx.seed, "C10", idx); // same workload for both properties
    let opts = BuilderOpts::default();
    for k in 0..4u64 {
        // swarm: most programs stay inside the shapes the tables are designed for, so that the
        // known unprovable shapes (improper Horner chains, two-table creators, unusable private
        // inputs) cannot mask anything else
        let gcfg = GenCfg {
            max_calls: ctx.tier.pick(30, 60),
            horner: *rng.pick(&[1, 1, 1, 0, 2]),
            creator_aliasing: rng.chance(1, 4),
            claim_privates: rng.chance(4, 5),
            ..GenCfg::default()
        };
        let p = gprog::generate::<U::BF, U::EF>(&mut rng, &gcfg);
        let cfg = ProverCfg::swarm(&mut rng, opts);
        let h = mix(mix(ctx.seed, idx), k);
        let r = gprog::ref_eval::<U::BF, U::EF>(&p);
        if !r.sat || r.precond_violated {
            out.count("generator_unsat_skipped");
            continue;
        }
        out.evals += 1;
        out.steps += p.calls.len() as u64;
        let o = match run_pipeline::<U>(&p, opts, &cfg, h) {
            Ok(o) => o,
            Err(_) => {
                out.count("builder_rejected");
                continue;
            }
        };
        out.distinct.insert(mix(gprog::kinds_signature(&p), (cfg.alu_lanes * 1000 + cfg.public_lanes * 100 + cfg.horner_k * 10) as u64 + cfg.min_height as u64));
        out.count(&format!("lanes_alu_{}", cfg.alu_lanes));
        out.count(&format!("horner_k_{}", cfg.horner_k));
        if out.samples.is_empty() {
            out.samples.push(json!({"universe": U::NAME, "program": p, "cfg": cfg.to_json(), "hash_seed": h}));
        }
        if c09 {
            // C09: the invariant itself
            for class in &o.issues {
                let key = class.clone();
                let still = |q: &Program| -> bool {
                    matches!(run_pipeline::<U>(q, opts, &cfg, h), Ok(o2) if o2.issues.contains(&key))
                };
                let m = gprog::minimise(&p, U::D, &still);
                out.violate(
                    key.clone(),
                    format!("bus invariant violated in compiled circuit: {key} (honest pipeline outcome: {})", o.fail.as_ref().map(|f| f.stage.name()).unwrap_or("accepted")),
                    json!({"universe": U::NAME, "program": m, "cfg": cfg.to_json(), "hash_seed": h}),
                );
            }
            if o.issues.is_empty() {
                out.count("circuits_invariant_ok");
                if o.fail.as_ref().is_some_and(|f| f.stage == Stage::Verify || f.stage == Stage::Prove) && o.horner.is_none() {
                    // the monitor says balanced but the real bus does not balance: monitor too weak
                    out.violate(
                        "monitor_missed_imbalance".to_string(),
                        format!("accountant found no issue but the honest proof failed at {}: {}", o.fail.as_ref().unwrap().stage.name(), o.fail.as_ref().unwrap().msg),
                        json!({"universe": U::NAME, "program": p, "cfg": cfg.to_json(), "hash_seed": h}),
                    );
                }
            }
        } else if let Some(key) = c10_key(&o) {
            let still = |q: &Program| -> bool {
                let r = gprog::ref_eval::<U::BF, U::EF>(q);
                r.sat && !r.precond_violated && matches!(run_pipeline::<U>(q, opts, &cfg, h), Ok(o2) if c10_key(&o2).as_deref() == Some(key.as_str()))
            };
            let m = gprog::minimise(&p, U::D, &still);
            out.violate(
                key.clone(),
                format!("satisfying inputs, builder accepted, pipeline failed at {}: {}", o.fail.as_ref().unwrap().stage.name(), o.fail.as_ref().unwrap().msg.chars().take(300).collect::<String>()),
                json!({"universe": U::NAME, "program": m, "cfg": cfg.to_json(), "hash_seed": h, "ops": o.ops}),
            );
        } else {
            out.count("proved_and_verified");
        }
        let _ = label;
    }
}

/// Honest arm for circuits with non-primitive tables: a Merkle-opening verification circuit (arity 2
/// over the width-16 permutation, arity 4 over the width-32 one) of a seeded batch shape, run
/// honestly, proven and verified. Satisfying inputs by construction (the native MMCS accepts the
/// opening), so any failing stage is a C10 violation and an unbalanced bus a C09 one.
pub fn npo_run(ctx: &Ctx, idx: u64, c09: bool, out: &mut RunOut) {
    use crate::props::c08;
    let mut rng = Rng::new(ctx.seed, "C10-npo", idx);
    // library Merkle openings over five table flavours; the recompose tables packed 1, 2 or 3 per row
    let uni = ["U-KB4", "U-BB4", "U-KB4-A4", "U-KB5Q", "U-KB4-P1"][(idx % 5) as usize];
    let recompose_lanes = [1usize, 2, 3][(idx / 5 % 3) as usize];
    let shape = c08::draw_shape(&mut rng, if uni == "U-KB5Q" || uni == "U-KB4-P1" { "U-KB4" } else { uni }, ctx.tier);
    let max_h = shape.dims.iter().map(|d| d.0).max().unwrap();
    let index = rng.usize_below(max_h);
    let hs = mix(mix(ctx.seed, idx), 0x6e70);
    foldhash::sim::set_seed(hs);
    let staged: Result<(), (String, String)> = (|| {
        macro_rules! go {
            ($U:ty, $build:expr, $w32:expr, $p1:expr) => {{
                let (circuit, traces) = match observe(|| $build) {
                    Ok(Ok(x)) => x,
                    Ok(Err(e)) if e.contains("sibling slots for") => return Err(("skip".to_string(), e)),
                    Ok(Err(e)) => return Err(("build_or_run".to_string(), e)),
                    Err(p) => return Err(("build_or_run_panic".to_string(), p)),
                };
                let cfg = ProverCfg { npo: BuilderOpts { poseidon: true, recompose: true }, poseidon_w32: $w32, poseidon1: $p1, recompose_lanes, alu_lanes: *[1usize, 2, 4].get((idx / 3 % 3) as usize).unwrap_or(&1), ..ProverCfg::default() };
                let (keys, info) = pipe::keygen::<$U>(&circuit, &cfg).map_err(|f| (f.stage.name().to_string(), f.msg))?;
                let proof = pipe::prove::<$U>(&keys, &traces, &cfg, None).map_err(|f| (f.stage.name().to_string(), f.msg))?;
                pipe::verify::<$U>(&proof, &cfg, &info.commitment).map_err(|f| (f.stage.name().to_string(), f.msg))
            }};
        }
        match uni {
            "U-BB4" => go!(crate::uni::Bb4, c08::bb4::build_and_run(&shape, index), false, false),
            "U-KB4-A4" => go!(crate::uni::Kb4, c08::kb4a4::build_and_run(&shape, index), true, false),
            "U-KB5Q" => go!(crate::uni::Kb5q, c08::kb5q::build_and_run(&shape, index), false, false),
            "U-KB4-P1" => go!(crate::uni::Kb4, c08::kb4p1::build_and_run(&shape, index), false, true),
            _ => go!(crate::uni::Kb4, c08::kb4::build_and_run(&shape, index), false, false),
        }
    })();
    out.evals += 1;
    out.count("npo_merkle_circuits");
    match staged {
        Ok(()) => {
            out.count("npo_proved_and_verified");
            out.count(&format!("npo_ok_{uni}_recompose_lanes_{recompose_lanes}"));
        }
        Err((stage, _)) if stage == "skip" => out.count("npo_arity4_known_shape_skipped"),
        Err((stage, msg)) => {
            let class = err_kind(&msg);
            let key = if c09 { format!("npo_bus_unbalanced:{uni}:{class}") } else { format!("npo_honest_failed:{stage}:{uni}:{class}") };
            let bus = msg.contains("Lookup") || msg.contains("TerminalSum");
            if !c09 || bus {
                out.violate(
                    key,
                    format!("Merkle-opening circuit ({uni}, dims {:?}, cap {}, index {index}): native MMCS accepts the opening, the circuit ran, but the pipeline failed at {stage}: {}", shape.dims, shape.cap_height, msg.chars().take(240).collect::<String>()),
                    json!({"npo": true, "shape": shape, "index": index, "hash_seed": hs, "idx": idx}),
                );
            }
        }
    }
}


/// Raw permutation-call family: a Merkle path of `depth` width-16 Poseidon2 rows built directly
/// with `add_poseidon2_perm` (the public low-level API), optionally preceded by `pre` independent
/// sponge rows, exposing the path's `mmcs_index_sum` on its last row (the index is a public input).
macro_rules! raw_merkle {
    ($fname:ident, $bname:ident, $rname:ident, $params:ident, $p2params:ty, $p2cfg:expr, $defperm:path, $uni:ty) => {
        #[allow(clippy::type_complexity)]
        pub fn $bname(depth: usize, pre: usize, expose_index: bool, seed: u64) -> Result<(p3_circuit::Circuit<p3_test_utils::$params::Challenge>, p3_circuit::tables::Traces<p3_test_utils::$params::Challenge>), (String, String)> {
            $rname(depth, pre, expose_index, seed, false)
        }
        /// `rich`: the limbs of the independent sponge rows come out of ALU ops (a product that is
        /// also the operand of exactly one addition, a fused sum, a mul_add result) and their
        /// outputs feed ALU ops again, so that the optimizer's use counts, fusion and creator
        /// assignment see slots that are read by a non-primitive table as well.
        #[allow(clippy::type_complexity)]
        pub fn $rname(depth: usize, pre: usize, expose_index: bool, seed: u64, rich: bool) -> Result<(p3_circuit::Circuit<p3_test_utils::$params::Challenge>, p3_circuit::tables::Traces<p3_test_utils::$params::Challenge>), (String, String)> {
            use p3_circuit::ops::{NpoPrivateData, Poseidon2PermCall, Poseidon2PermPrivateData, generate_poseidon2_trace, generate_recompose_trace};
            use p3_field::{BasedVectorSpace, PrimeCharacteristicRing};
            use p3_symmetric::Permutation;
            use p3_test_utils::$params::{Challenge, F};
            type EF = Challenge;
            const LIMB: usize = 4;
            let mut rng = Rng::new(seed, "raw-merkle", depth as u64);
            let perm = $defperm();
            let mut limb = |rng: &mut Rng| -> EF { EF::from_basis_coefficients_fn(|_| F::from_u64(rng.below(<F as p3_field::PrimeField64>::ORDER_U64))) };
            let flat = |l: &[EF]| -> Vec<F> { l.iter().flat_map(|x| x.as_basis_coefficients_slice().to_vec()).collect() };
            let leaf = [limb(&mut rng), limb(&mut rng)];
            let siblings: Vec<[EF; 2]> = (0..depth).map(|_| [limb(&mut rng), limb(&mut rng)]).collect();
            let bits: Vec<bool> = (0..depth).map(|r| r > 0 && rng.chance(1, 2)).collect();
            // native root
            let mut digest: Vec<F> = flat(&leaf);
            for (r, &bit) in bits.iter().enumerate() {
                let sib = flat(&siblings[r]);
                let mut state = [F::ZERO; 16];
                if r > 0 && bit {
                    state[..2 * LIMB].copy_from_slice(&sib);
                    state[2 * LIMB..].copy_from_slice(&digest);
                } else {
                    state[..2 * LIMB].copy_from_slice(&digest);
                    state[2 * LIMB..].copy_from_slice(&sib);
                }
                digest = perm.permute(state)[..2 * LIMB].to_vec();
            }
            let root = [EF::from_basis_coefficients_slice(&digest[..LIMB]).unwrap(), EF::from_basis_coefficients_slice(&digest[LIMB..]).unwrap()];
            let index: u64 = bits.iter().enumerate().map(|(i, &b)| (b as u64) << (depth - 1 - i)).sum();
            let pre_plan: Vec<(u64, EF, EF, EF, bool)> = if rich { (0..pre).map(|_| (rng.below(5), limb(&mut rng), limb(&mut rng), limb(&mut rng), rng.chance(1, 2))).collect() } else { Vec::new() };
            let built = observe(|| -> Result<_, String> {
                let mut b = p3_circuit::CircuitBuilder::<EF>::new();
                b.enable_poseidon2_perm::<$p2params, _>(generate_poseidon2_trace::<EF, $p2params>, perm.clone());
                b.enable_recompose::<F>(generate_recompose_trace::<F, EF>);
                let out0 = b.public_input();
                let out1 = b.public_input();
                let index_expr = b.public_input();
                let mut pubs = vec![root[0], root[1], EF::from(F::from_u64(index))];
                // independent sponge rows first: they only move the Merkle rows inside the table
                for (mode, va, vb, vc, consume) in pre_plan.iter().copied() {
                    let zero = b.alloc_const(EF::ZERO, "z");
                    let a = b.public_input();
                    pubs.push(va);
                    let (l0, l1, v0, v1) = if mode == 0 {
                        (a, zero, va, EF::ZERO)
                    } else {
                        let bb = b.public_input();
                        pubs.push(vb);
                        let c = b.public_input();
                        pubs.push(vc);
                        match mode {
                            1 => {
                                let m = b.mul(a, bb);
                                let s = b.add(m, c);
                                (m, s, va * vb, va * vb + vc)
                            }
                            2 => {
                                let m = b.mul(a, bb);
                                let s = b.add(m, c);
                                (s, zero, va * vb + vc, EF::ZERO)
                            }
                            3 => {
                                let t = b.add(a, bb);
                                let q = b.mul(t, c);
                                (t, q, va + vb, (va + vb) * vc)
                            }
                            _ => {
                                let r = b.mul_add(a, bb, c);
                                (r, a, va * vb + vc, va)
                            }
                        }
                    };
                    let (_id, outs) = b
                        .add_poseidon2_perm(&Poseidon2PermCall { config: $p2cfg, new_start: true, merkle_path: false, mmcs_bit: None, mmcs_bit2: None, inputs: vec![Some(l0), Some(l1), Some(zero), Some(zero)], out_ctl: vec![true, false], return_all_outputs: false, mmcs_index_sum: None })
                        .map_err(|e| format!("{e:?}"))?;
                    let mut st = [F::ZERO; 16];
                    st[..LIMB].copy_from_slice(v0.as_basis_coefficients_slice());
                    st[LIMB..2 * LIMB].copy_from_slice(v1.as_basis_coefficients_slice());
                    let o = perm.permute(st);
                    let o0 = EF::from_basis_coefficients_slice(&o[..LIMB]).unwrap();
                    if consume {
                        // the row's output is a multiplication operand whose product feeds one addition
                        let w = b.mul(outs[0].unwrap(), a);
                        let w2 = b.add(w, a);
                        let pw = b.public_input();
                        b.connect(w2, pw);
                        pubs.push(o0 * va + va);
                    } else {
                        let y = b.public_input();
                        b.connect(outs[0].unwrap(), y);
                        pubs.push(o0);
                    }
                }
                for k in 0..(if rich { 0 } else { pre }) {
                    let x = b.public_input();
                    pubs.push(EF::from(F::from_u64(7 + k as u64)));
                    let zero = b.alloc_const(EF::ZERO, "z");
                    let (_id, outs) = b
                        .add_poseidon2_perm(&Poseidon2PermCall { config: $p2cfg, new_start: true, merkle_path: false, mmcs_bit: None, mmcs_bit2: None, inputs: vec![Some(x), Some(zero), Some(zero), Some(zero)], out_ctl: vec![true, false], return_all_outputs: false, mmcs_index_sum: None })
                        .map_err(|e| format!("{e:?}"))?;
                    let y = b.public_input();
                    b.connect(outs[0].unwrap(), y);
                    let mut st = [F::ZERO; 16];
                    st[0] = F::from_u64(7 + k as u64);
                    let o = perm.permute(st);
                    pubs.push(EF::from_basis_coefficients_slice(&o[..LIMB]).unwrap());
                }
                let mut private = Vec::new();
                let mut last = Vec::new();
                for (r, &bit) in bits.iter().enumerate() {
                    let bit_expr = b.alloc_const(EF::from(F::from_bool(bit)), "mmcs_bit");
                    let inputs = if r == 0 {
                        vec![Some(b.alloc_const(leaf[0], "l0")), Some(b.alloc_const(leaf[1], "l1")), Some(b.alloc_const(siblings[0][0], "s0")), Some(b.alloc_const(siblings[0][1], "s1"))]
                    } else {
                        vec![None; 4]
                    };
                    let is_last = r + 1 == depth;
                    let (op_id, outs) = b
                        .add_poseidon2_perm(&Poseidon2PermCall { config: $p2cfg, new_start: r == 0, merkle_path: true, mmcs_bit: Some(bit_expr), mmcs_bit2: None, inputs, out_ctl: vec![is_last, is_last], return_all_outputs: false, mmcs_index_sum: (is_last && expose_index).then_some(index_expr) })
                        .map_err(|e| format!("{e:?}"))?;
                    if r > 0 {
                        private.push((op_id, siblings[r]));
                    }
                    last = outs;
                }
                b.connect(last[0].unwrap(), out0);
                b.connect(last[1].unwrap(), out1);
                let circuit = b.build().map_err(|e| format!("{e:?}"))?;
                let traces = {
                    let mut r = circuit.runner();
                    r.set_public_inputs(&pubs).map_err(|e| format!("{e:?}"))?;
                    for (op_id, sib) in &private {
                        r.set_private_data(*op_id, NpoPrivateData::new(Poseidon2PermPrivateData { sibling: sib.to_vec() })).map_err(|e| format!("{e:?}"))?;
                    }
                    r.run().map_err(|e| format!("{e:?}"))?
                };
                Ok((circuit, traces))
            });
            match built {
                Ok(Ok(x)) => Ok(x),
                Ok(Err(e)) => Err(("build_or_run".to_string(), e)),
                Err(p) => Err(("build_or_run_panic".to_string(), p)),
            }
        }
        fn $fname(depth: usize, pre: usize, expose_index: bool, seed: u64, cfg: &ProverCfg, rich: bool) -> Result<(), (String, String)> {
            let (circuit, traces) = $rname(depth, pre, expose_index, seed, rich)?;
            let (keys, info) = pipe::keygen::<$uni>(&circuit, cfg).map_err(|f| (f.stage.name().to_string(), f.msg))?;
            let proof = pipe::prove::<$uni>(&keys, &traces, cfg, None).map_err(|f| (f.stage.name().to_string(), f.msg))?;
            pipe::verify::<$uni>(&proof, cfg, &info.commitment).map_err(|f| (f.stage.name().to_string(), f.msg))
        }
    };
}
raw_merkle!(raw_merkle_kb4, raw_merkle_build_kb4, raw_merkle_rich_kb4, koala_bear_params, p3_poseidon2_circuit_air::KoalaBearD4Width16, p3_circuit::ops::Poseidon2Config::KOALA_BEAR_D4_W16, p3_koala_bear::default_koalabear_poseidon2_16, crate::uni::Kb4);
raw_merkle!(raw_merkle_bb4, raw_merkle_build_bb4, raw_merkle_rich_bb4, baby_bear_params, p3_poseidon2_circuit_air::BabyBearD4Width16, p3_circuit::ops::Poseidon2Config::BABY_BEAR_D4_W16, p3_baby_bear::default_babybear_poseidon2_16, crate::uni::Bb4);

/// Honest arm over the raw permutation-call family.
pub fn raw_run(ctx: &Ctx, idx: u64, c09: bool, out: &mut RunOut) {
    let mut rng = Rng::new(ctx.seed, "C10-raw", idx);
    let depth = rng.range(1, 9);
    let pre = rng.range(0, 3);
    let expose = rng.chance(3, 4);
    let seed = mix(mix(ctx.seed, idx), 0x7261);
    foldhash::sim::set_seed(seed);
    let cfg = ProverCfg { npo: BuilderOpts { poseidon: true, recompose: true }, ..ProverCfg::default() };
    let kb = (idx / 8) % 2 == 0;
    // every other pair of runs: sponge rows whose limbs come out of (and go into) ALU ops
    let rich = (idx / 16) % 2 == 1;
    let pre = if rich { pre.max(1) } else { pre };
    if rich {
        out.count("raw_rows_fed_by_alu_ops");
    }
    let r = if kb { raw_merkle_kb4(depth, pre, expose, seed, &cfg, rich) } else { raw_merkle_bb4(depth, pre, expose, seed, &cfg, rich) };
    out.evals += 1;
    out.count("raw_merkle_paths");
    out.count(&format!("raw_rows_{}", if (depth + pre).is_power_of_two() { "pow2" } else { "other" }));
    match r {
        Ok(()) => out.count("raw_proved_and_verified"),
        Err((stage, msg)) => {
            let class = err_kind(&msg);
            let bus = msg.contains("Lookup") || msg.contains("TerminalSum");
            if !c09 || bus {
                out.violate(
                    if c09 { format!("raw_perm_bus_unbalanced:{class}") } else { format!("raw_perm_honest_failed:{stage}:{class}") },
                    format!("Merkle path of {depth} permutation rows after {pre} sponge rows (fed by ALU ops: {rich}; index exposed: {expose}, {}): satisfying by construction, but the pipeline failed at {stage}: {}", if kb { "U-KB4" } else { "U-BB4" }, msg.chars().take(240).collect::<String>()),
                    json!({"raw": true, "idx": idx, "depth": depth, "pre": pre, "expose_index": expose}),
                );
            }
        }
    }
}

pub fn replay_one<U: CircuitUni>(ctx: &Ctx, body: &serde_json::Value, c09: bool) -> i32 {
    let d = &body["detail"];
    let p: Program = match serde_json::from_value(d["program"].clone()) {
        Ok(p) => p,
        Err(e) => {
            eprintln!("harness error: bad replay file: {e}");
            return 2;
        }
    };
    let cfg = ProverCfg::from_json(&d["cfg"]);
    let h = d["hash_seed"].as_u64().unwrap_or(1);
    let o = match run_pipeline::<U>(&p, BuilderOpts::default(), &cfg, h) {
        Ok(o) => o,
        Err(e) => {
            println!("replay: {e}");
            return 0;
        }
    };
    let key = body["key"].as_str().unwrap_or("");
    let hit = if c09 { o.issues.iter().any(|k| k == key) || key == "monitor_missed_imbalance" && o.fail.is_some() && o.horner.is_none() && o.issues.is_empty() } else { c10_key(&o).as_deref() == Some(key) };
    println!("replay: issues={:?} horner={:?} fail={:?}", o.issues, o.horner, o.fail.as_ref().map(|f| (f.stage.name(), f.msg.chars().take(200).collect::<String>())));
    if hit {
        println!("VIOLATION property={} replay={}", ctx.prop, ctx.replay.as_ref().unwrap().display());
        1
    } else {
        println!("replay did not reproduce key {key}");
        0
    }
}

pub fn main(ctx: &Ctx, c09: bool) -> i32 {
    if let Some(path) = &ctx.replay {
        let body: serde_json::Value = match std::fs::read_to_string(path).ok().and_then(|s| serde_json::from_str(&s).ok()) {
            Some(b) => b,
            None => {
                eprintln!("harness error: cannot read replay file");
                return 2;
            }
        };
        if body["detail"]["npo"].as_bool() == Some(true) || body["detail"]["raw"].as_bool() == Some(true) {
            let mut tmp = RunOut::default();
            let mut c2 = ctx.clone();
            c2.seed = body["seed"].as_u64().unwrap_or(ctx.seed);
            c2.tier = if body["tier"].as_str() == Some("thorough") { crate::core::report::Tier::Thorough } else { crate::core::report::Tier::Quick };
            if body["detail"]["raw"].as_bool() == Some(true) {
                raw_run(&c2, body["detail"]["idx"].as_u64().unwrap_or(0), c09, &mut tmp);
            } else {
                npo_run(&c2, body["detail"]["idx"].as_u64().unwrap_or(0), c09, &mut tmp);
            }
            let key = body["key"].as_str().unwrap_or("");
            return if tmp.violations.iter().any(|v| v.key == key) {
                println!("VIOLATION property={} replay={}", ctx.prop, ctx.replay.as_ref().unwrap().display());
                1
            } else {
                println!("replay did not reproduce key {key}");
                0
            };
        }
        return crate::with_uni!(body["detail"]["universe"].as_str().unwrap_or(""), U, replay_one::<U>(ctx, &body, c09));
    }
    let runs: u64 = ctx.tier.pick(2000, 40000);
    let res = crate::core::pool::run_jobs(runs, |idx| {
        let mut out = RunOut::default();
        crate::with_uni!(crate::uni::uni_of(idx), U, one_run::<U>(ctx, idx, c09, &mut out));
        if idx % 8 == 0 {
            npo_run(ctx, idx, c09, &mut out);
        }
        if idx % 8 == 4 {
            raw_run(ctx, idx, c09, &mut out);
        }
        let mut d = crate::core::prng::Digest::new();
        d.u64(out.evals);
        for (k, v) in &out.counters {
            d.str(k);
            d.u64(*v);
        }
        for v in &out.violations {
            d.str(&v.key);
        }
        out.digest = d.finish();
        out
    });
    let outs = match res {
        Ok(o) => o,
        Err(e) => {
            eprintln!("harness error: {e}");
            return 2;
        }
    };
    let mut total = RunOut::default();
    for o in outs {
        total.merge(o);
    }
    let rule = if c09 {
        "every circuit compiled by the honest pipeline (seeded G-prog programs incl. every connect-aliasing pattern between constants, public/private inputs, hint outputs and ALU outputs; configuration swarm over lanes, Horner K, min height; seeded hash order) is handed to the bus accountant, which recomputes creators/readers per witness slot from the final preprocessed columns; cross-check: an honest proof of a circuit the accountant calls balanced must verify. distinct = distinct (call-kind sequence, packing) pairs."
    } else {
        "fault-free control arm: seeded G-prog programs with satisfying inputs -> build -> run -> keygen -> prove -> verify (commitment-binding verifier node) under a configuration swarm (public/ALU lanes in {1,2,3,4,8}, Horner K in {2..5}, min height in {1,2,8,32}) and seeded hash order; failures are keyed by stage + structural explanation (bus accountant classes, Horner-adjacency classifier) and minimised. distinct = distinct (call-kind sequence, packing) pairs."
    };
    crate::core::report::finish(
        ctx,
        &total,
        runs,
        Spec {
            level: "exploration",
            rule,
            exhaustive: false,
            assumptions: vec![
                "generator emits only programs whose inputs satisfy them (checked by the reference interpreter before use)".into(),
                "native verifier node = verify_all_tables + equality of the proof's preprocessed commitment with the verifier's own".into(),
            ],
            components_real: vec!["CircuitBuilder", "CircuitRunner", "get_airs_and_degrees_with_prep", "ProverData", "BatchStarkProver::prove_all_tables", "verify_all_tables"],
            components_stub: vec![],
            not_covered: vec!["D=1, D=2, D=5 circuits", "non-primitive tables in G-prog circuits (covered by C05/C06 circuits)"],
            extra: json!({}),
        },
    )
}
