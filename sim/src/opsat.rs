//! Ops-only evaluator (C03/C04 oracle): decides, for an assignment `slot -> value`, every relation
//! that the *emitted operation list* states — `Const`, `Public`, the five ALU kinds (HornerAcc
//! with `acc = intermediate_out`). It knows nothing about `witness_rewrite`, `expr_to_widx`, the
//! runner's conflict checks or `MulAdd.intermediate_out` (no table constrains that slot).
//! Also: the byzantine witness generator that obeys only those relations.

use p3_circuit::tables::{AluTrace, ConstTrace, PublicTrace, Traces, WitnessTrace};
use p3_circuit::{AluOpKind, Circuit, Op, WitnessId};
use p3_field::Field;

/// First emitted relation violated by the assignment, if any.
pub fn ops_violation<F: Field>(c: &Circuit<F>, w: &[F], publics: &[F]) -> Option<String> {
    for (i, op) in c.ops.iter().enumerate() {
        match op {
            Op::Const { out, val } => {
                if w[out.0 as usize] != *val {
                    return Some(format!("op {i}: Const slot w{} != constant", out.0));
                }
            }
            Op::Public { out, public_pos } => {
                if w[out.0 as usize] != publics[*public_pos] {
                    return Some(format!("op {i}: Public slot w{} != public input {public_pos}", out.0));
                }
            }
            Op::Alu { kind, a, b, c, out, intermediate_out } => {
                let (av, bv, ov) = (w[a.0 as usize], w[b.0 as usize], w[out.0 as usize]);
                let cv = c.map(|x| w[x.0 as usize]).unwrap_or(F::ZERO);
                let ok = match kind {
                    AluOpKind::Add => av + bv == ov,
                    AluOpKind::Mul => av * bv == ov,
                    AluOpKind::BoolCheck => av * (av - F::ONE) == F::ZERO && ov == av,
                    AluOpKind::MulAdd => av * bv + cv == ov,
                    AluOpKind::HornerAcc => {
                        let acc = w[intermediate_out.expect("horner acc").0 as usize];
                        acc * bv + cv - av == ov
                    }
                };
                if !ok {
                    return Some(format!("op {i}: {kind:?} relation fails"));
                }
            }
            Op::Hint { .. } | Op::NonPrimitiveOpWithExecutor { .. } => {}
        }
    }
    None
}

/// Byzantine witness generator: fills slots by executing the emitted ops as relations, never
/// overwriting a slot that is already fixed (inputs, constants, earlier ops). It performs none of
/// the honest runner's side checks. Unfilled slots get zero.
pub fn byzantine_assignment<F: Field>(c: &Circuit<F>, publics: &[F], privates: &[F]) -> Vec<F> {
    byzantine_assignment_dev(c, publics, privates, None)
}

/// Number of hint output slots of the circuit (the deviation space of `byzantine_assignment_dev`).
pub fn hint_outputs<F: Field>(c: &Circuit<F>) -> usize {
    c.ops.iter().map(|op| if let Op::Hint { outputs, .. } = op { outputs.len() } else { 0 }).sum()
}

/// Like `byzantine_assignment`; `deviate_hint = Some(k)`: the k-th hint output of the circuit (in
/// op order) is the honest value plus one — hint outputs are constrained by the emitted ops only.
pub fn byzantine_assignment_dev<F: Field>(c: &Circuit<F>, publics: &[F], privates: &[F], deviate_hint: Option<usize>) -> Vec<F> {
    let n = c.witness_count as usize;
    let mut w: Vec<Option<F>> = vec![None; n];
    for (i, wid) in c.public_rows.iter().enumerate() {
        if w[wid.0 as usize].is_none() {
            w[wid.0 as usize] = publics.get(i).copied();
        }
    }
    for (i, wid) in c.private_input_rows.iter().enumerate() {
        if w[wid.0 as usize].is_none() {
            w[wid.0 as usize] = privates.get(i).copied();
        }
    }
    let setif = |w: &mut Vec<Option<F>>, id: WitnessId, v: F| {
        if w[id.0 as usize].is_none() {
            w[id.0 as usize] = Some(v);
        }
    };
    // a fused MulAdd's product slot is constrained by no table. If nothing else mentions it, its
    // value is not observable (the honest product is as good a choice as any); if another op reads
    // it, the byzantine prover picks a *wrong* product on purpose — the emitted ops allow it
    let dont_care = pure_intermediate_slots(c);
    // sweep the list until nothing new can be derived (a slot may only become derivable from an
    // op further down, e.g. an operand pinned backwards by a later op)
    for _sweep in 0..8 {
    let known_before = w.iter().filter(|x| x.is_some()).count();
    let mut hint_base = 0usize;
    for op in &c.ops {
        match op {
            Op::Const { out, val } => setif(&mut w, *out, *val),
            Op::Public { .. } => {}
            Op::Alu { kind, a, b, c: cc, out, intermediate_out } => {
                let g = |w: &Vec<Option<F>>, id: WitnessId| w[id.0 as usize];
                let cv = cc.and_then(|x| g(&w, x));
                match kind {
                    AluOpKind::Add | AluOpKind::Mul => {
                        let is_add = *kind == AluOpKind::Add;
                        match (g(&w, *a), g(&w, *b), g(&w, *out)) {
                            (Some(x), Some(y), _) => setif(&mut w, *out, if is_add { x + y } else { x * y }),
                            (Some(x), None, Some(o)) => {
                                let v = if is_add { o - x } else { x.try_inverse().map(|i| o * i).unwrap_or(F::ZERO) };
                                setif(&mut w, *b, v);
                            }
                            (None, Some(y), Some(o)) => {
                                let v = if is_add { o - y } else { y.try_inverse().map(|i| o * i).unwrap_or(F::ZERO) };
                                setif(&mut w, *a, v);
                            }
                            _ => {}
                        }
                    }
                    AluOpKind::BoolCheck => {
                        if let Some(x) = g(&w, *a) {
                            setif(&mut w, *out, x);
                        }
                    }
                    AluOpKind::MulAdd => {
                        if let (Some(x), Some(y)) = (g(&w, *a), g(&w, *b)) {
                            // the product slot is constrained by no table: leave it alone if fixed
                            if let Some(io) = intermediate_out {
                                let v = if dont_care.contains(&io.0) { x * y } else { x * y + F::ONE };
                                setif(&mut w, *io, v);
                            }
                            let cv = cv.unwrap_or(F::ZERO);
                            setif(&mut w, *out, x * y + cv);
                        }
                    }
                    AluOpKind::HornerAcc => {
                        let acc = intermediate_out.and_then(|x| g(&w, x));
                        if let (Some(acc), Some(x), Some(y), Some(z)) = (acc, g(&w, *a), g(&w, *b), cv) {
                            setif(&mut w, *out, acc * y + z - x);
                        }
                    }
                }
            }
            Op::Hint { inputs, outputs, executor } => {
                // honest hint values where the slots are still free
                let mut tmp = w.clone();
                for o in outputs {
                    if !inputs.contains(o) {
                        tmp[o.0 as usize] = None;
                    }
                }
                if executor.execute(inputs, outputs, &mut tmp).is_ok() {
                    for (oi, o) in outputs.iter().enumerate() {
                        if let Some(v) = tmp[o.0 as usize] {
                            let dev = deviate_hint == Some(hint_base + oi);
                            setif(&mut w, *o, if dev { v + F::ONE } else { v });
                        }
                    }
                }
                hint_base += outputs.len();
            }
            Op::NonPrimitiveOpWithExecutor { .. } => {}
        }
    }
    if w.iter().filter(|x| x.is_some()).count() == known_before {
        break;
    }
    }
    w.into_iter().map(|x| x.unwrap_or(F::ZERO)).collect()
}

/// Slots that occur in the operation list only as the `intermediate_out` of fused `MulAdd` rows
/// (never as an operand or output of any op, a hint slot or an input row): no table constrains
/// them and nothing reads them, so their value is not observable.
pub fn pure_intermediate_slots<F: Field>(c: &Circuit<F>) -> std::collections::BTreeSet<u32> {
    let mut inter = std::collections::BTreeSet::new();
    let mut used = std::collections::BTreeSet::new();
    for wid in c.public_rows.iter().chain(c.private_input_rows.iter()) {
        used.insert(wid.0);
    }
    for op in &c.ops {
        match op {
            Op::Const { out, .. } | Op::Public { out, .. } => {
                used.insert(out.0);
            }
            Op::Alu { kind, a, b, c: cc, out, intermediate_out } => {
                used.extend([a.0, b.0, out.0]);
                if let Some(x) = cc {
                    used.insert(x.0);
                }
                if let Some(io) = intermediate_out {
                    if *kind == AluOpKind::MulAdd {
                        inter.insert(io.0);
                    } else {
                        used.insert(io.0);
                    }
                }
            }
            Op::Hint { inputs, outputs, .. } => {
                used.extend(inputs.iter().map(|x| x.0));
                used.extend(outputs.iter().map(|x| x.0));
            }
            Op::NonPrimitiveOpWithExecutor { inputs, outputs, .. } => {
                used.extend(inputs.iter().flatten().map(|x| x.0));
                used.extend(outputs.iter().flatten().map(|x| x.0));
            }
        }
    }
    inter.retain(|x| !used.contains(x));
    inter
}

/// Build the logical `Traces` a prover would hand to `prove_all_tables` from an assignment
/// (primitive tables only). All `Traces` fields are public API.
pub fn traces_from_assignment<F: Field>(c: &Circuit<F>, w: &[F]) -> Traces<F> {
    let mut const_index = Vec::new();
    let mut const_values = Vec::new();
    let mut pub_index = Vec::new();
    let mut pub_values = Vec::new();
    let (mut op_kind, mut values, mut indices) = (Vec::new(), Vec::new(), Vec::new());
    for op in &c.ops {
        match op {
            Op::Const { out, val } => {
                const_index.push(*out);
                const_values.push(*val);
            }
            Op::Public { out, .. } => {
                pub_index.push(*out);
                pub_values.push(w[out.0 as usize]);
            }
            Op::Alu { kind, a, b, c: cc, out, .. } => {
                let c_index = cc.unwrap_or(WitnessId(0));
                let (a_val, out_val) = (w[a.0 as usize], w[out.0 as usize]);
                let (b_val, c_val) = match kind {
                    AluOpKind::BoolCheck => (F::ZERO, a_val),
                    AluOpKind::Add | AluOpKind::Mul => (w[b.0 as usize], F::ZERO),
                    _ => (w[b.0 as usize], cc.map(|x| w[x.0 as usize]).unwrap_or(F::ZERO)),
                };
                op_kind.push(*kind);
                values.push([a_val, b_val, c_val, out_val]);
                indices.push([*a, *b, c_index, *out]);
            }
            _ => {}
        }
    }
    Traces {
        witness_trace: WitnessTrace::new(w.to_vec()),
        const_trace: ConstTrace { index: const_index, values: const_values },
        public_trace: PublicTrace { index: pub_index, values: pub_values },
        alu_trace: {
            if op_kind.is_empty() {
                // the runner's dummy row for an empty ALU table
                op_kind.push(AluOpKind::Add);
                values.push([F::ZERO; 4]);
                indices.push([WitnessId(0); 4]);
            }
            AluTrace { op_kind, values, indices }
        },
        non_primitive_traces: Default::default(),
        tag_to_witness: c.tag_to_witness.clone(),
    }
}
