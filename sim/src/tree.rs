//! The transport: a message is a self-describing tree (`serde_json::Value`) obtained from the real
//! `Serialize` impls; faults are applied to the tree; the receiver deserializes with the real
//! `Deserialize` impls. A tree that no longer deserializes is `rejected_at_transport`.

use serde_json::Value;

pub fn collect_numbers(v: &Value, out: &mut Vec<u64>) {
    match v {
        Value::Number(n) => out.push(n.as_u64().unwrap_or(0)),
        Value::Array(a) => a.iter().for_each(|x| collect_numbers(x, out)),
        Value::Object(m) => m.values().for_each(|x| collect_numbers(x, out)),
        _ => {}
    }
}

#[derive(Clone, Debug, PartialEq, Eq, Hash, PartialOrd, Ord)]
pub enum Seg {
    Key(String),
    Idx(usize),
}
pub type Path = Vec<Seg>;

pub fn path_str(p: &Path) -> String {
    let mut s = String::new();
    for seg in p {
        match seg {
            Seg::Key(k) => {
                s.push('.');
                s.push_str(k);
            }
            Seg::Idx(i) => s.push_str(&format!("[{i}]")),
        }
    }
    s
}

/// Path with array indices erased: the "leaf class" used to count distinct kinds of leaves.
pub fn path_class(p: &Path) -> String {
    let mut s = String::new();
    for seg in p {
        match seg {
            Seg::Key(k) => {
                s.push('.');
                s.push_str(k);
            }
            Seg::Idx(_) => s.push_str("[]"),
        }
    }
    s
}

pub fn get<'a>(v: &'a Value, p: &[Seg]) -> Option<&'a Value> {
    let mut cur = v;
    for seg in p {
        cur = match seg {
            Seg::Key(k) => cur.get(k)?,
            Seg::Idx(i) => cur.get(*i)?,
        };
    }
    Some(cur)
}
pub fn get_mut<'a>(v: &'a mut Value, p: &[Seg]) -> Option<&'a mut Value> {
    let mut cur = v;
    for seg in p {
        cur = match seg {
            Seg::Key(k) => cur.get_mut(k)?,
            Seg::Idx(i) => cur.get_mut(*i)?,
        };
    }
    Some(cur)
}

/// All numeric leaves, in deterministic (document) order. serde_json's map is a BTreeMap (no
/// `preserve_order` feature), so object iteration is sorted by key and process-independent.
pub fn numeric_leaves(v: &Value) -> Vec<Path> {
    fn rec(v: &Value, cur: &mut Path, out: &mut Vec<Path>) {
        match v {
            Value::Number(_) => out.push(cur.clone()),
            Value::Array(a) => {
                for (i, x) in a.iter().enumerate() {
                    cur.push(Seg::Idx(i));
                    rec(x, cur, out);
                    cur.pop();
                }
            }
            Value::Object(m) => {
                for (k, x) in m {
                    cur.push(Seg::Key(k.clone()));
                    rec(x, cur, out);
                    cur.pop();
                }
            }
            _ => {}
        }
    }
    let mut out = Vec::new();
    rec(v, &mut Vec::new(), &mut out);
    out
}

/// All array nodes (sequence nodes) and all option-like nodes (`null`).
pub fn seq_nodes(v: &Value) -> Vec<Path> {
    fn rec(v: &Value, cur: &mut Path, out: &mut Vec<Path>) {
        match v {
            Value::Array(a) => {
                out.push(cur.clone());
                for (i, x) in a.iter().enumerate() {
                    cur.push(Seg::Idx(i));
                    rec(x, cur, out);
                    cur.pop();
                }
            }
            Value::Object(m) => {
                for (k, x) in m {
                    cur.push(Seg::Key(k.clone()));
                    rec(x, cur, out);
                    cur.pop();
                }
            }
            _ => {}
        }
    }
    let mut out = Vec::new();
    rec(v, &mut Vec::new(), &mut out);
    out
}

pub fn null_nodes(v: &Value) -> Vec<Path> {
    fn rec(v: &Value, cur: &mut Path, out: &mut Vec<Path>) {
        match v {
            Value::Null => out.push(cur.clone()),
            Value::Array(a) => {
                for (i, x) in a.iter().enumerate() {
                    cur.push(Seg::Idx(i));
                    rec(x, cur, out);
                    cur.pop();
                }
            }
            Value::Object(m) => {
                for (k, x) in m {
                    cur.push(Seg::Key(k.clone()));
                    rec(x, cur, out);
                    cur.pop();
                }
            }
            _ => {}
        }
    }
    let mut out = Vec::new();
    rec(v, &mut Vec::new(), &mut out);
    out
}

/// Heuristic: a numeric leaf is a *usize/metadata* leaf (not a field element / digest word) if its
/// key name says so. Everything else is a value leaf.
pub fn is_meta_leaf(p: &Path) -> bool {
    const META: &[&str] = &[
        "degree_bits",
        "log_arity",
        "rows",
        "lanes",
        "ext_degree",
        "public_lanes",
        "alu_lanes",
        "min_trace_height",
        "horner_packed_steps",
        "width",
        "matrix_to_instance",
        "instances",
        "log_height",
        "height",
        "num_queries",
    ];
    p.iter().any(|s| matches!(s, Seg::Key(k) if META.contains(&k.as_str())))
}
