//! The one PRNG of the simulator: xoshiro256** seeded from (VERIF_SEED, label, run index) via
//! splitmix64. Own implementation so that a replay never depends on a `rand` version.
//! Logging paths never draw from it.

#[derive(Clone, Debug)]
pub struct Rng {
    s: [u64; 4],
    pub draws: u64,
}

pub fn splitmix64(state: &mut u64) -> u64 {
    *state = state.wrapping_add(0x9E37_79B9_7F4A_7C15);
    let mut z = *state;
    z = (z ^ (z >> 30)).wrapping_mul(0xBF58_476D_1CE4_E5B9);
    z = (z ^ (z >> 27)).wrapping_mul(0x94D0_49BB_1331_11EB);
    z ^ (z >> 31)
}

/// FNV-1a 64 over bytes: the stable, process-independent hash used for labels and digests.
pub fn fnv64(bytes: &[u8]) -> u64 {
    let mut h: u64 = 0xcbf2_9ce4_8422_2325;
    for b in bytes {
        h ^= *b as u64;
        h = h.wrapping_mul(0x0000_0100_0000_01B3);
    }
    h
}

pub fn mix(a: u64, b: u64) -> u64 {
    let mut s = a ^ b.rotate_left(32) ^ 0xA076_1D64_78BD_642F;
    let x = splitmix64(&mut s);
    x ^ splitmix64(&mut s).rotate_left(17)
}

impl Rng {
    pub fn new(seed: u64, label: &str, idx: u64) -> Self {
        let mut st = mix(mix(seed, fnv64(label.as_bytes())), idx);
        let s = [
            splitmix64(&mut st),
            splitmix64(&mut st),
            splitmix64(&mut st),
            splitmix64(&mut st),
        ];
        Self { s, draws: 0 }
    }
    pub fn fork(&mut self, label: &str) -> Self {
        let a = self.next_u64();
        Self::new(a, label, 0)
    }
    pub fn next_u64(&mut self) -> u64 {
        self.draws += 1;
        let r = self.s[1].wrapping_mul(5).rotate_left(7).wrapping_mul(9);
        let t = self.s[1] << 17;
        self.s[2] ^= self.s[0];
        self.s[3] ^= self.s[1];
        self.s[1] ^= self.s[2];
        self.s[0] ^= self.s[3];
        self.s[2] ^= t;
        self.s[3] = self.s[3].rotate_left(45);
        r
    }
    /// Uniform in 0..n (n>0).
    pub fn below(&mut self, n: u64) -> u64 {
        debug_assert!(n > 0);
        ((self.next_u64() as u128 * n as u128) >> 64) as u64
    }
    pub fn usize_below(&mut self, n: usize) -> usize {
        self.below(n as u64) as usize
    }
    /// Inclusive range.
    pub fn range(&mut self, lo: usize, hi: usize) -> usize {
        lo + self.usize_below(hi - lo + 1)
    }
    pub fn chance(&mut self, num: u64, den: u64) -> bool {
        self.below(den) < num
    }
    pub fn pick<'a, T>(&mut self, xs: &'a [T]) -> &'a T {
        &xs[self.usize_below(xs.len())]
    }
    pub fn shuffle<T>(&mut self, xs: &mut [T]) {
        for i in (1..xs.len()).rev() {
            let j = self.usize_below(i + 1);
            xs.swap(i, j);
        }
    }
}

/// Order-sensitive streaming digest (FNV-1a over u64 words) used for event logs and structural digests.
#[derive(Clone, Debug)]
pub struct Digest(pub u64);
impl Default for Digest {
    fn default() -> Self {
        Self(0xcbf2_9ce4_8422_2325)
    }
}
impl Digest {
    pub fn new() -> Self {
        Self::default()
    }
    pub fn u64(&mut self, x: u64) {
        for b in x.to_le_bytes() {
            self.0 ^= b as u64;
            self.0 = self.0.wrapping_mul(0x0000_0100_0000_01B3);
        }
    }
    pub fn bytes(&mut self, bs: &[u8]) {
        self.u64(bs.len() as u64);
        for b in bs {
            self.0 ^= *b as u64;
            self.0 = self.0.wrapping_mul(0x0000_0100_0000_01B3);
        }
    }
    pub fn str(&mut self, s: &str) {
        self.bytes(s.as_bytes());
    }
    pub fn finish(&self) -> u64 {
        self.0
    }
}
