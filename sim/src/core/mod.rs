pub mod pool;
pub mod prng;
pub mod report;
