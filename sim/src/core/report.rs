//! Run outcomes, aggregation, known-findings matching, replay files, evidence files, exit codes.

use std::collections::{BTreeMap, BTreeSet};
use std::path::PathBuf;

use serde_json::{Value, json};

#[derive(Clone, Copy, Debug, PartialEq, Eq)]
pub enum Tier {
    Quick,
    Thorough,
}
impl Tier {
    pub fn name(self) -> &'static str {
        match self {
            Tier::Quick => "quick",
            Tier::Thorough => "thorough",
        }
    }
    pub fn pick<T>(self, q: T, t: T) -> T {
        match self {
            Tier::Quick => q,
            Tier::Thorough => t,
        }
    }
}

#[derive(Clone, Debug)]
pub struct Ctx {
    pub prop: String,
    pub tier: Tier,
    pub seed: u64,
    pub root: PathBuf,
    pub replay: Option<PathBuf>,
    pub start: std::time::Instant,
    /// extra key=value arguments (e.g. run=17 to execute a single run index)
    pub args: BTreeMap<String, String>,
}

#[derive(Clone, Debug)]
pub struct Violation {
    /// finding key: fault kind + site class (or minimal workload signature). Known findings match on it.
    pub key: String,
    /// which oracle clause failed, with observed/expected
    pub clause: String,
    /// everything needed to re-execute exactly this case (workload, config draw, hash seed, fault plan)
    pub detail: Value,
}

#[derive(Clone, Debug, Default)]
pub struct RunOut {
    pub evals: u64,
    pub steps: u64,
    pub digest: u64,
    pub violations: Vec<Violation>,
    pub counters: BTreeMap<String, u64>,
    pub distinct: BTreeSet<u64>,
    pub samples: Vec<Value>,
}
impl RunOut {
    pub fn count(&mut self, k: &str) {
        *self.counters.entry(k.to_string()).or_insert(0) += 1;
    }
    pub fn count_n(&mut self, k: &str, n: u64) {
        *self.counters.entry(k.to_string()).or_insert(0) += n;
    }
    pub fn violate(&mut self, key: impl Into<String>, clause: impl Into<String>, detail: Value) {
        self.violations.push(Violation { key: key.into(), clause: clause.into(), detail });
    }
    pub fn merge(&mut self, o: RunOut) {
        self.evals += o.evals;
        self.steps += o.steps;
        self.digest = crate::core::prng::mix(self.digest, o.digest);
        self.violations.extend(o.violations);
        for (k, v) in o.counters {
            *self.counters.entry(k).or_insert(0) += v;
        }
        self.distinct.extend(o.distinct);
        for s in o.samples {
            if self.samples.len() < 6 {
                self.samples.push(s);
            }
        }
    }
}

pub struct Known {
    pub findings: Vec<(String, String, String)>, // (property, key, what)
}
impl Known {
    pub fn load(root: &std::path::Path) -> Self {
        let p = root.join("known_findings.json");
        let mut findings = Vec::new();
        if let Ok(s) = std::fs::read_to_string(&p) {
            if let Ok(v) = serde_json::from_str::<Value>(&s) {
                if let Some(a) = v.get("findings").and_then(|x| x.as_array()) {
                    for f in a {
                        findings.push((
                            f["property"].as_str().unwrap_or("").to_string(),
                            f["key"].as_str().unwrap_or("").to_string(),
                            f["what"].as_str().unwrap_or("").to_string(),
                        ));
                    }
                }
            }
        }
        Self { findings }
    }
    pub fn lookup(&self, prop: &str, key: &str) -> Option<&str> {
        self.findings
            .iter()
            .find(|(p, k, _)| p == prop && k == key)
            .map(|(_, _, w)| w.as_str())
    }
}

pub struct Spec<'a> {
    pub level: &'a str,
    pub rule: &'a str,
    pub exhaustive: bool,
    pub assumptions: Vec<String>,
    pub components_real: Vec<&'a str>,
    pub components_stub: Vec<&'a str>,
    pub not_covered: Vec<&'a str>,
    pub extra: Value,
}

/// Write replay files for unknown violations, print KNOWN-FINDING / VIOLATION lines, write the
/// evidence file, return the process exit code.
pub fn finish(ctx: &Ctx, total: &RunOut, runs: u64, spec: Spec<'_>) -> i32 {
    let known = Known::load(&ctx.root);
    let wall = ctx.start.elapsed().as_secs_f64();
    // group by key, keep first (lowest run index thanks to ordered merge) as representative
    let mut by_key: BTreeMap<String, Vec<&Violation>> = BTreeMap::new();
    for v in &total.violations {
        by_key.entry(v.key.clone()).or_default().push(v);
    }
    let mut unknown = 0usize;
    let mut known_hit: Vec<Value> = Vec::new();
    let rdir = ctx.root.join("replays").join(&ctx.prop);
    for (key, vs) in &by_key {
        if let Some(what) = known.lookup(&ctx.prop, key) {
            println!(
                "KNOWN-FINDING: property={} key={} occurrences={} {}",
                ctx.prop,
                key,
                vs.len(),
                what
            );
            known_hit.push(json!({"key": key, "occurrences": vs.len(), "first_clause": vs[0].clause}));
        } else {
            unknown += 1;
            let _ = std::fs::create_dir_all(&rdir);
            let fname = format!(
                "{}-{:016x}.json",
                ctx.seed,
                crate::core::prng::fnv64(key.as_bytes())
            );
            let path = rdir.join(fname);
            let body = json!({
                "property": ctx.prop,
                "seed": ctx.seed,
                "tier": ctx.tier.name(),
                "key": key,
                "clause": vs[0].clause,
                "occurrences": vs.len(),
                "detail": vs[0].detail,
            });
            let _ = std::fs::write(&path, serde_json::to_string_pretty(&body).unwrap());
            println!("VIOLATION property={} replay={}", ctx.prop, path.display());
            println!("  key={} clause={}", key, vs[0].clause);
        }
    }
    let known_listed: Vec<&str> = known
        .findings
        .iter()
        .filter(|(p, _, _)| *p == ctx.prop)
        .map(|(_, k, _)| k.as_str())
        .collect();
    let known_not_reproduced: Vec<&str> = known_listed
        .iter()
        .copied()
        .filter(|k| !by_key.contains_key(*k))
        .collect();

    let mut samples = total.samples.clone();
    if samples.is_empty() {
        samples.push(json!("no sample recorded"));
    }
    let coverage = json!({
        "evaluations": total.evals.max(1),
        "distinct_nontrivial": total.distinct.len(),
        "rule": spec.rule,
        "samples": samples,
        "exhaustive": spec.exhaustive,
        "simulated_runs": runs,
        "runs_per_hour": if wall > 0.0 { (runs as f64 / wall * 3600.0) as u64 } else { 0 },
        "logical_steps": total.steps,
        "simulated_time": "none: nothing in the system reads a clock; logical_steps is the time-like measure",
        "fault_and_probe_counters": total.counters,
        "run_digest": format!("{:016x}", total.digest),
        "components_real": spec.components_real,
        "components_stub": spec.components_stub,
        "not_covered": spec.not_covered,
        "known_findings_reproduced": known_hit,
        "known_findings_not_reproduced": known_not_reproduced,
        "workers": crate::core::pool::worker_count(),
        "extra": spec.extra,
    });
    let ev = json!({
        "property_id": ctx.prop,
        "tier": ctx.tier.name(),
        "seed": ctx.seed,
        "level": spec.level,
        "coverage": coverage,
        "assumptions": spec.assumptions,
        "wall_s": wall,
        "violations": unknown,
    });
    let edir = ctx.root.join("evidence");
    let _ = std::fs::create_dir_all(&edir);
    let path = edir.join(format!("{}.json", ctx.prop));
    if ctx.replay.is_none() && !ctx.args.contains_key("noevidence") {
        if let Err(e) = std::fs::write(&path, serde_json::to_string_pretty(&ev).unwrap()) {
            eprintln!("harness error: cannot write evidence: {e}");
            return 2;
        }
    }
    println!(
        "{} tier={} seed={} runs={} evals={} distinct={} unknown_violations={} known_keys_hit={} wall={:.1}s digest={:016x}",
        ctx.prop,
        ctx.tier.name(),
        ctx.seed,
        runs,
        total.evals,
        total.distinct.len(),
        unknown,
        by_key.len() - unknown,
        wall,
        total.digest
    );
    if total.distinct.len() < 2 {
        eprintln!("harness error: fewer than 2 distinct non-trivial cases explored");
        return 2;
    }
    if unknown > 0 { 1 } else { 0 }
}
