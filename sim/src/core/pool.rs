//! Worker pool. One simulated run = one closure call on one worker thread with that thread's
//! hash-seed stream set from the run's own seed; results are merged in run-index order so the
//! worker count never influences content.

use std::panic::{AssertUnwindSafe, catch_unwind};
use std::sync::Mutex;
use std::sync::atomic::{AtomicU64, Ordering};

pub fn worker_count() -> usize {
    std::env::var("VERIF_WORKERS")
        .ok()
        .and_then(|s| s.parse().ok())
        .unwrap_or_else(|| std::thread::available_parallelism().map(|n| n.get()).unwrap_or(4))
}

/// Run `n` jobs; job `i` gets index `i`. A panic escaping a job is a harness error (jobs catch the
/// panics that are legitimate observations themselves).
pub fn run_jobs<R: Send, Fun: Fn(u64) -> R + Sync>(n: u64, f: Fun) -> Result<Vec<R>, String> {
    run_jobs_budget(n, None, f).map(|(v, _)| v)
}

/// Same, with an optional wall-clock budget: jobs not started before the deadline are skipped.
/// Returns results of the *prefix-closed* set of completed jobs (in index order) and how many ran.
pub fn run_jobs_budget<R: Send, Fun: Fn(u64) -> R + Sync>(
    n: u64,
    budget: Option<std::time::Duration>,
    f: Fun,
) -> Result<(Vec<R>, u64), String> {
    let next = AtomicU64::new(0);
    let out: Mutex<Vec<(u64, R)>> = Mutex::new(Vec::new());
    let err: Mutex<Option<String>> = Mutex::new(None);
    let start = std::time::Instant::now();
    let w = worker_count().max(1).min(n.max(1) as usize);
    std::thread::scope(|s| {
        for _ in 0..w {
            s.spawn(|| {
                loop {
                    if let Some(b) = budget {
                        if start.elapsed() > b {
                            break;
                        }
                    }
                    let i = next.fetch_add(1, Ordering::SeqCst);
                    if i >= n {
                        break;
                    }
                    if std::env::var("VERIF_TRACE_IDX").is_ok() {
                        eprintln!("JOB {i}");
                    }
                    match catch_unwind(AssertUnwindSafe(|| f(i))) {
                        Ok(r) => out.lock().unwrap().push((i, r)),
                        Err(p) => {
                            let msg = panic_msg(&p);
                            *err.lock().unwrap() = Some(format!("job {i} panicked: {msg}"));
                            next.store(n, Ordering::SeqCst);
                            break;
                        }
                    }
                }
            });
        }
    });
    if let Some(e) = err.into_inner().unwrap() {
        return Err(e);
    }
    let mut v = out.into_inner().unwrap();
    v.sort_by_key(|(i, _)| *i);
    // keep the contiguous prefix only, so a budget cut is reproducible as "first k runs"
    let mut k = 0u64;
    let mut res = Vec::with_capacity(v.len());
    for (i, r) in v {
        if i == k {
            res.push(r);
            k += 1;
        } else {
            break;
        }
    }
    Ok((res, k))
}

pub fn panic_msg(p: &Box<dyn std::any::Any + Send>) -> String {
    if let Some(s) = p.downcast_ref::<&str>() {
        s.to_string()
    } else if let Some(s) = p.downcast_ref::<String>() {
        s.clone()
    } else {
        "<non-string panic>".to_string()
    }
}

/// Run a closure that may legitimately panic (code under test); the panic is an observation.
pub fn observe<T>(f: impl FnOnce() -> T) -> Result<T, String> {
    catch_unwind(AssertUnwindSafe(f)).map_err(|p| panic_msg(&p))
}

pub fn install_quiet_panic_hook() {
    if std::env::var("VERIF_LOUD").is_err() {
        std::panic::set_hook(Box::new(|_| {}));
    }
}
