//! Ground truth for forged table matrices (C04/C11 oracle), written against the documented table
//! layouts and the operations' defining relations over the configured extension field
//! (multiplication through `p3_field`'s own extension type, not the AIR's hand-expanded formulas).
//! Primitive tables only (Const / Public / ALU). ALU rows are decoded from the ALU table's
//! *preprocessed matrix* (per-row selectors and witness indices, as the verifier's key commits to
//! them), so rows re-ordered by the Horner lane schedule and packed Horner rows are covered:
//! a packed row of arity k carries step 0's (a, c) in lane 0, steps 1..k-1 in the extra columns,
//! one shared `b`, and only the final `out`; the compressed intermediates and `b^2` are free
//! columns of the prover and take no part in the ground truth. Each decoded Horner step is mapped
//! back to the circuit's HornerAcc op (same order; checked by witness indices), whose accumulator
//! *slot* supplies the first accumulator of a chain — not whatever the previous row holds.

use std::collections::BTreeMap;

use p3_circuit::ops::AluOpKind;
use p3_circuit::{Circuit, Op};
use p3_field::{BasedVectorSpace, ExtensionField, PrimeCharacteristicRing, PrimeField64};
use p3_matrix::Matrix;
use p3_matrix::dense::RowMajorMatrix;

use crate::uni::KeyInfo;

fn ext<BF: PrimeField64, EF: ExtensionField<BF>>(cells: &[BF]) -> EF {
    EF::from_basis_coefficients_slice(cells).unwrap()
}

/// ALU row relation only (no bus): Some(reason) if the decoded row violates its op's relation.
pub fn alu_row_relation<BF: PrimeField64, EF: ExtensionField<BF>>(kind: &str, a: EF, b: EF, c: EF, out: EF, bool_out_tied: bool) -> Option<&'static str> {
    match kind {
        "add" => (a + b != out).then_some("a + b != out"),
        "mul" => (a * b != out).then_some("a * b != out"),
        "bool" => {
            if a * (a - EF::ONE) != EF::ZERO {
                Some("a * (a - 1) != 0")
            } else if bool_out_tied && out != a {
                Some("out != a")
            } else {
                None
            }
        }
        "mul_add" => (a * b + c != out).then_some("a * b + c != out"),
        _ => None,
    }
}

pub fn kind_of(r: &[u64]) -> &'static str {
    if r[2] == 1 {
        "bool"
    } else if r[3] == 1 {
        "mul_add"
    } else if r[4] == 1 {
        "horner"
    } else if r[1] == 1 {
        "add"
    } else {
        "mul"
    }
}

/// Column geometry of the ALU main and preprocessed matrices (from the documented layout).
#[derive(Clone, Copy, Debug)]
pub struct AluGeom {
    pub d: usize,
    pub lanes: usize,
    pub k_max: usize,
    pub num_int: usize,
    pub extra_main: usize,
    pub extra_prep: usize,
}

impl AluGeom {
    pub fn new(main_w: usize, prep_w: usize, d: usize, k_max: usize) -> Option<Self> {
        let num_int = (k_max - 1) / 2;
        let extra_m = (num_int + 2 * (k_max - 1) + 1) * d;
        let extra_p = 7 * (k_max - 1);
        if main_w < extra_m || prep_w < extra_p || (main_w - extra_m) % (4 * d) != 0 || (prep_w - extra_p) % 13 != 0 {
            return None;
        }
        let lanes = (main_w - extra_m) / (4 * d);
        if lanes == 0 || lanes != (prep_w - extra_p) / 13 {
            return None;
        }
        Some(Self { d, lanes, k_max, num_int, extra_main: lanes * 4 * d, extra_prep: lanes * 13 })
    }
    pub fn operand(&self, lane: usize, o: usize) -> usize {
        lane * 4 * self.d + o * self.d
    }
    pub fn int(&self, j: usize) -> usize {
        self.extra_main + j * self.d
    }
    /// (a_t, c_t) columns of packed step t (1 <= t < k_max)
    pub fn step_a(&self, t: usize) -> usize {
        self.extra_main + self.num_int * self.d + 2 * (t - 1) * self.d
    }
    pub fn step_c(&self, t: usize) -> usize {
        self.step_a(t) + self.d
    }
    pub fn b_sq(&self) -> usize {
        self.extra_main + (self.num_int + 2 * (self.k_max - 1)) * self.d
    }
    pub fn sel_k(&self, k: usize) -> usize {
        self.extra_prep + (k - 2)
    }
    /// preprocessed columns of packed step t: [a_idx, c_idx, a_reader, c_reader, mult_a, mult_c]
    pub fn step_prep(&self, t: usize) -> usize {
        self.extra_prep + (self.k_max - 1) + 6 * (t - 1)
    }
    pub fn col_class(&self, col: usize) -> String {
        if col < self.extra_main {
            ["a", "b", "c", "out"][(col % (4 * self.d)) / self.d].to_string()
        } else if col < self.step_a(1) {
            "horner_int".to_string()
        } else if col < self.b_sq() {
            if ((col - self.step_a(1)) / self.d) % 2 == 0 { "horner_a_t".to_string() } else { "horner_c_t".to_string() }
        } else {
            "horner_b_sq".to_string()
        }
    }
}

/// One bus participant: a D-cell group of some table matrix tied to a witness slot.
#[derive(Clone, Debug)]
pub struct BusCell {
    pub table: usize,
    pub row: usize,
    pub col: usize,
    pub name: &'static str,
}

/// One Horner row on lane 0: arity (1 = single step) and whether the row above is not a Horner row.
#[derive(Clone, Debug)]
pub struct HRow {
    pub row: usize,
    pub k: usize,
    pub chain_start: bool,
}

#[derive(Clone, Debug)]
pub struct AluOpAt {
    pub row: usize,
    pub lane: usize,
    pub kind: &'static str,
}

pub struct Decoded {
    pub geom: AluGeom,
    pub const_rows: usize,
    pub public_lanes: usize,
    pub bus: BTreeMap<u64, Vec<BusCell>>,
    pub ops: Vec<AluOpAt>,
    pub hrows: Vec<HRow>,
    pub alu_rows_active: usize,
}

fn u(x: impl PrimeField64) -> u64 {
    x.as_canonical_u64()
}

/// Decode the layout (no values): which cells are which operand of which op, who is on the bus.
pub fn decode<BF: PrimeField64>(info: &KeyInfo, alu_prep: &RowMajorMatrix<BF>, mats: &[RowMajorMatrix<BF>], d: usize, k_max: usize) -> Result<Decoded, String> {
    let geom = AluGeom::new(mats[2].width(), alu_prep.width(), d, k_max).ok_or_else(|| format!("ALU widths {}x{} do not fit the documented layout for K={k_max}", mats[2].width(), alu_prep.width()))?;
    let mut bus: BTreeMap<u64, Vec<BusCell>> = BTreeMap::new();
    let dd = d as u64;
    let const_rows = info.primitive_cols[0].len() / 2;
    for (i, ch) in info.primitive_cols[0].chunks_exact(2).enumerate() {
        if ch[0] != 0 {
            bus.entry(ch[1] / dd).or_default().push(BusCell { table: 0, row: i, col: 0, name: "const" });
        }
    }
    let public_lanes = (mats[1].width() / d).max(1);
    for (i, ch) in info.primitive_cols[1].chunks_exact(2).enumerate() {
        if ch[0] != 0 {
            bus.entry(ch[1] / dd).or_default().push(BusCell { table: 1, row: i / public_lanes, col: (i % public_lanes) * d, name: "public" });
        }
    }
    let mut ops = Vec::new();
    let mut hrows = Vec::new();
    let mut last_active = 0usize;
    let h = alu_prep.height().min(mats[2].height());
    let mut prev_lane0_horner = false;
    for r in 0..h {
        let pr: Vec<u64> = alu_prep.row_slice(r).ok_or("prep row")?.iter().map(|x| u(*x)).collect();
        let mut lane0_horner = false;
        for lane in 0..geom.lanes {
            let p = &pr[lane * 13..lane * 13 + 13];
            if p[0] == 0 {
                continue;
            }
            last_active = r + 1;
            let kind = kind_of(p);
            ops.push(AluOpAt { row: r, lane, kind });
            let order = BF::ORDER_U64;
            let mulf = |a: u64, b: u64| -> u64 { ((a as u128 * b as u128) % order as u128) as u64 };
            if mulf(p[0], p[11]) != 0 {
                bus.entry(p[5] / dd).or_default().push(BusCell { table: 2, row: r, col: geom.operand(lane, 0), name: "alu.a" });
            }
            if p[9] != 0 {
                bus.entry(p[6] / dd).or_default().push(BusCell { table: 2, row: r, col: geom.operand(lane, 1), name: "alu.b" });
            }
            if mulf(p[0], p[12]) != 0 {
                bus.entry(p[7] / dd).or_default().push(BusCell { table: 2, row: r, col: geom.operand(lane, 2), name: "alu.c" });
            }
            if p[10] != 0 {
                bus.entry(p[8] / dd).or_default().push(BusCell { table: 2, row: r, col: geom.operand(lane, 3), name: "alu.out" });
            }
            if kind == "horner" {
                if lane != 0 {
                    return Err(format!("Horner op on lane {lane} of row {r}"));
                }
                lane0_horner = true;
                let mut k = 1usize;
                for kk in 2..=k_max {
                    if pr[geom.sel_k(kk)] != 0 {
                        k = kk;
                    }
                }
                for t in 1..k {
                    let sp = &pr[geom.step_prep(t)..geom.step_prep(t) + 6];
                    if sp[4] != 0 {
                        bus.entry(sp[0] / dd).or_default().push(BusCell { table: 2, row: r, col: geom.step_a(t), name: "alu.a_t" });
                    }
                    if sp[5] != 0 {
                        bus.entry(sp[1] / dd).or_default().push(BusCell { table: 2, row: r, col: geom.step_c(t), name: "alu.c_t" });
                    }
                }
                hrows.push(HRow { row: r, k, chain_start: !prev_lane0_horner });
            }
        }
        prev_lane0_horner = lane0_horner;
    }
    Ok(Decoded { geom, const_rows, public_lanes, bus, ops, hrows, alu_rows_active: last_active })
}

#[derive(Clone, Copy, Debug)]
pub struct Opts {
    /// BoolCheck rows must have out == a (true for the end-to-end oracle; the constraint-level
    /// oracle leaves that tie to the bus)
    pub bool_out_tied: bool,
    /// check bus agreement
    pub bus: bool,
    /// check that Const rows carry the circuit's constants
    pub consts: bool,
    /// Horner accumulator of every step = lane-0 `out` of the row above (the AIR's row relation),
    /// instead of the circuit op's accumulator slot (the statement)
    pub acc_from_prev_row: bool,
}

pub const E2E: Opts = Opts { bool_out_tied: true, bus: true, consts: true, acc_from_prev_row: false };
pub const ROW_RELATION: Opts = Opts { bool_out_tied: false, bus: false, consts: false, acc_from_prev_row: true };

fn cell<BF: PrimeField64, EF: ExtensionField<BF>>(mats: &[RowMajorMatrix<BF>], t: usize, row: usize, col: usize, d: usize) -> Option<EF> {
    let m = mats.get(t)?;
    let w = m.width();
    let s = row * w + col;
    m.values.get(s..s + d).map(ext::<BF, EF>)
}

/// None = the matrices satisfy every operation relation, carry the circuit's constants and agree on
/// every shared slot; Some(reason) otherwise.
pub fn judge<BF: PrimeField64, EF: ExtensionField<BF>>(
    circuit: &Circuit<EF>,
    info: &KeyInfo,
    alu_prep: &RowMajorMatrix<BF>,
    mats: &[RowMajorMatrix<BF>],
    k_max: usize,
    o: Opts,
) -> Option<String> {
    let d = <EF as BasedVectorSpace<BF>>::DIMENSION;
    let dec = match decode::<BF>(info, alu_prep, mats, d, k_max) {
        Ok(x) => x,
        Err(e) => return Some(format!("decode: {e}")),
    };
    let g = dec.geom;
    // ---- Const values
    let mut const_slot: BTreeMap<u64, EF> = BTreeMap::new();
    let mut ci = 0usize;
    for op in &circuit.ops {
        if let Op::Const { out, val } = op {
            const_slot.insert(out.0 as u64, *val);
            if o.consts {
                let v: EF = cell::<BF, EF>(mats, 0, ci, 0, d)?;
                if v != *val {
                    return Some(format!("Const row {ci} does not carry the circuit's constant"));
                }
            }
            ci += 1;
        }
    }
    // ---- bus agreement
    let mut slot_val: BTreeMap<u64, EF> = BTreeMap::new();
    for (slot, cells) in &dec.bus {
        let vs: Vec<EF> = cells.iter().filter_map(|c| cell::<BF, EF>(mats, c.table, c.row, c.col, d)).collect();
        if o.bus && vs.iter().any(|v| *v != vs[0]) {
            let names: Vec<&str> = cells.iter().map(|x| x.name).collect();
            return Some(format!("slot {slot}: bus participants disagree on its value ({names:?})"));
        }
        if let Some(v) = vs.first() {
            slot_val.insert(*slot, *v);
        }
    }
    // ---- ALU row relations (non-Horner)
    let am = &mats[2];
    for op in &dec.ops {
        if op.kind == "horner" {
            continue;
        }
        let a: EF = cell::<BF, EF>(mats, 2, op.row, g.operand(op.lane, 0), d)?;
        let b: EF = cell::<BF, EF>(mats, 2, op.row, g.operand(op.lane, 1), d)?;
        let c: EF = cell::<BF, EF>(mats, 2, op.row, g.operand(op.lane, 2), d)?;
        let out: EF = cell::<BF, EF>(mats, 2, op.row, g.operand(op.lane, 3), d)?;
        if let Some(why) = alu_row_relation::<BF, EF>(op.kind, a, b, c, out, o.bool_out_tied) {
            return Some(format!("ALU row {} lane {} ({}): {why}", op.row, op.lane, op.kind));
        }
        if o.bus {
            // the statement is about witness slots: an operand cell that the layout leaves off the
            // bus is the prover's to fill, but the op still names a slot there, and the relation
            // must hold for the value that slot has everywhere else
            let pr = alu_prep.row_slice(op.row)?;
            let p13: Vec<u64> = pr[op.lane * 13..op.lane * 13 + 13].iter().map(|x| u(*x)).collect();
            let dd = d as u64;
            let sv = |idx: u64, cellv: EF| -> EF { slot_val.get(&(idx / dd)).copied().unwrap_or(cellv) };
            let (sa, sb, sc, so) = (sv(p13[5], a), sv(p13[6], b), sv(p13[7], c), sv(p13[8], out));
            let (sb, sc) = match op.kind {
                "bool" => (b, c),
                "add" | "mul" => (sb, c),
                _ => (sb, sc),
            };
            let so = if op.kind == "bool" && !o.bool_out_tied { out } else { so };
            if let Some(why) = alu_row_relation::<BF, EF>(op.kind, sa, sb, sc, so, o.bool_out_tied) {
                return Some(format!("ALU row {} lane {} ({}): {why} for the values of the witness slots the op names (an operand cell is not tied to its slot)", op.row, op.lane, op.kind));
            }
        }
    }
    // ---- Horner steps, mapped to the circuit's HornerAcc ops in order
    let hops: Vec<(u64, u64, u64, u64, u64)> = circuit
        .ops
        .iter()
        .filter_map(|op| match op {
            Op::Alu { kind: AluOpKind::HornerAcc, a, b, c, out, intermediate_out } => Some((intermediate_out.map(|x| x.0 as u64).unwrap_or(u64::MAX), a.0 as u64, b.0 as u64, c.map(|x| x.0 as u64).unwrap_or(u64::MAX), out.0 as u64)),
            _ => None,
        })
        .collect();
    let total_steps: usize = dec.hrows.iter().map(|h| h.k).sum();
    if !o.acc_from_prev_row && total_steps != hops.len() {
        return Some(format!("decode: {total_steps} Horner steps in the table, {} HornerAcc ops in the circuit", hops.len()));
    }
    let mut hi = 0usize;
    let mut carry: Option<(u64, EF)> = None; // (out slot of the previous Horner op, its computed value)
    let h = am.height();
    for hr in &dec.hrows {
        let pr: Vec<u64> = alu_prep.row_slice(hr.row)?.iter().map(|x| u(*x)).collect();
        let b: EF = cell::<BF, EF>(mats, 2, hr.row, g.operand(0, 1), d)?;
        let out_cell: EF = cell::<BF, EF>(mats, 2, hr.row, g.operand(0, 3), d)?;
        let prev_out: EF = cell::<BF, EF>(mats, 2, (hr.row + h - 1) % h, g.operand(0, 3), d)?;
        let mut acc: Option<EF> = if o.acc_from_prev_row { Some(prev_out) } else { None };
        for t in 0..hr.k {
            let (a, c): (EF, EF) = if t == 0 {
                (cell::<BF, EF>(mats, 2, hr.row, g.operand(0, 0), d)?, cell::<BF, EF>(mats, 2, hr.row, g.operand(0, 2), d)?)
            } else {
                (cell::<BF, EF>(mats, 2, hr.row, g.step_a(t), d)?, cell::<BF, EF>(mats, 2, hr.row, g.step_c(t), d)?)
            };
            if !o.acc_from_prev_row {
                let (acc_s, a_s, b_s, c_s, out_s) = hops[hi];
                let (a_idx, c_idx) = if t == 0 { (pr[5], pr[7]) } else { (pr[g.step_prep(t)], pr[g.step_prep(t) + 1]) };
                let dd = d as u64;
                if a_idx != a_s * dd || c_idx != c_s * dd || pr[6] != b_s * dd || (t + 1 == hr.k && pr[8] != out_s * dd) {
                    return Some(format!("decode: Horner step {hi} (row {} step {t}) does not match the circuit's op", hr.row));
                }
                // the statement's accumulator: the op's acc slot
                acc = if let Some(v) = const_slot.get(&acc_s) {
                    Some(*v)
                } else if let Some(v) = slot_val.get(&acc_s) {
                    Some(*v)
                } else if let Some((s, v)) = carry {
                    (s == acc_s).then_some(v)
                } else {
                    None
                };
                let _ = out_s;
            }
            let next = acc.map(|x| x * b + c - a);
            if !o.acc_from_prev_row {
                carry = next.map(|v| (hops[hi].4, v));
                hi += 1;
            }
            acc = next;
            if o.acc_from_prev_row && t + 1 < hr.k {
                continue;
            }
        }
        match acc {
            Some(v) if v != out_cell => {
                return Some(format!("ALU row {} (horner, arity {}): folded accumulator != out", hr.row, hr.k));
            }
            None => return Some(format!("decode: accumulator of Horner row {} is not determined by the tables", hr.row)),
            _ => {}
        }
    }
    None
}
