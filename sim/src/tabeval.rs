//! Ground truth for forged table matrices (C04/C11 oracle), written against the documented table
//! layouts and the operations' defining relations over the configured extension field
//! (multiplication through `p3_field`'s own extension type, not the AIR's hand-expanded formulas).
//! Only primitive tables (Const / Public / ALU without Horner scheduling) are decoded.

use std::collections::BTreeMap;

use p3_circuit::{Circuit, Op};
use p3_field::{BasedVectorSpace, ExtensionField, PrimeCharacteristicRing, PrimeField64};
use p3_matrix::Matrix;
use p3_matrix::dense::RowMajorMatrix;

use crate::uni::KeyInfo;

fn ext<BF: PrimeField64, EF: ExtensionField<BF>>(cells: &[BF]) -> EF {
    EF::from_basis_coefficients_slice(cells).unwrap()
}

/// ALU row relation only (no bus): Some(reason) if the decoded row violates its op's relation.
pub fn alu_row_relation<BF: PrimeField64, EF: ExtensionField<BF>>(kind: &str, a: EF, b: EF, c: EF, out: EF, bool_out_tied: bool) -> Option<&'static str> {
    match kind {
        "add" => (a + b != out).then_some("a + b != out"),
        "mul" => (a * b != out).then_some("a * b != out"),
        "bool" => {
            if a * (a - EF::ONE) != EF::ZERO {
                Some("a * (a - 1) != 0")
            } else if bool_out_tied && out != a {
                Some("out != a")
            } else {
                None
            }
        }
        "mul_add" => (a * b + c != out).then_some("a * b + c != out"),
        _ => None,
    }
}

pub struct AluLayout {
    pub lanes: usize,
    pub active_ops: usize,
}

pub fn alu_layout(width: usize, d: usize, horner_k: usize, info: &KeyInfo) -> AluLayout {
    let num_int = (horner_k - 1) / 2;
    let extra = (num_int + 2 * (horner_k - 1) + 1) * d;
    let lanes = (width - extra) / (4 * d);
    let active_ops = info.primitive_cols[2].chunks_exact(13).filter(|r| r[0] != 0).count();
    AluLayout { lanes, active_ops }
}

pub fn kind_of(r: &[u64]) -> &'static str {
    if r[2] == 1 {
        "bool"
    } else if r[3] == 1 {
        "mul_add"
    } else if r[4] == 1 {
        "horner"
    } else if r[1] == 1 {
        "add"
    } else {
        "mul"
    }
}

/// None = the forged matrices still satisfy every operation relation, carry the circuit's
/// constants and agree on every shared slot; Some(reason) otherwise.
pub fn eval_tables<BF: PrimeField64, EF: ExtensionField<BF>>(
    circuit: &Circuit<EF>,
    info: &KeyInfo,
    mats: &[RowMajorMatrix<BF>],
    horner_k: usize,
    bool_out_tied: bool,
) -> Option<String> {
    let d = <EF as BasedVectorSpace<BF>>::DIMENSION;
    let order = BF::ORDER_U64;
    let mulf = |a: u64, b: u64| -> u64 { ((a as u128 * b as u128) % order as u128) as u64 };
    let mut bus: BTreeMap<u64, Vec<(EF, &'static str)>> = BTreeMap::new();
    // ---- Const
    let consts: Vec<EF> = circuit
        .ops
        .iter()
        .filter_map(|op| if let Op::Const { val, .. } = op { Some(*val) } else { None })
        .collect();
    let cm = &mats[0];
    for (i, ch) in info.primitive_cols[0].chunks_exact(2).enumerate() {
        let row = cm.row_slice(i)?;
        let v: EF = ext::<BF, EF>(&row[..d]);
        if i < consts.len() && v != consts[i] {
            return Some(format!("Const row {i} does not carry the circuit's constant"));
        }
        if ch[0] != 0 {
            bus.entry(ch[1] / d as u64).or_default().push((v, "const"));
        }
    }
    // ---- Public
    let pm = &mats[1];
    let plw = d;
    let planes = (pm.width() / plw).max(1);
    for (i, ch) in info.primitive_cols[1].chunks_exact(2).enumerate() {
        let (r, l) = (i / planes, i % planes);
        let row = pm.row_slice(r)?;
        let v: EF = ext::<BF, EF>(&row[l * plw..l * plw + d]);
        if ch[0] != 0 {
            bus.entry(ch[1] / d as u64).or_default().push((v, "public"));
        }
    }
    // ---- ALU
    let am = &mats[2];
    let lay = alu_layout(am.width(), d, horner_k, info);
    let mut opi = 0usize;
    for r13 in info.primitive_cols[2].chunks_exact(13) {
        if r13[0] == 0 {
            opi += 1;
            continue;
        }
        let (row, lane) = (opi / lay.lanes, opi % lay.lanes);
        let rs = am.row_slice(row)?;
        let base = lane * 4 * d;
        let a: EF = ext::<BF, EF>(&rs[base..base + d]);
        let b: EF = ext::<BF, EF>(&rs[base + d..base + 2 * d]);
        let c: EF = ext::<BF, EF>(&rs[base + 2 * d..base + 3 * d]);
        let out: EF = ext::<BF, EF>(&rs[base + 3 * d..base + 4 * d]);
        let kind = kind_of(r13);
        if kind == "horner" {
            return None; // not decoded: callers must not use Horner circuits with this oracle
        }
        if let Some(why) = alu_row_relation::<BF, EF>(kind, a, b, c, out, bool_out_tied) {
            return Some(format!("ALU op {opi} ({kind}): {why}"));
        }
        let (a_idx, b_idx, c_idx, out_idx) = (r13[5], r13[6], r13[7], r13[8]);
        if mulf(r13[0], r13[11]) != 0 {
            bus.entry(a_idx / d as u64).or_default().push((a, "alu.a"));
        }
        if r13[9] != 0 {
            bus.entry(b_idx / d as u64).or_default().push((b, "alu.b"));
        }
        if mulf(r13[0], r13[12]) != 0 {
            bus.entry(c_idx / d as u64).or_default().push((c, "alu.c"));
        }
        if r13[10] != 0 {
            bus.entry(out_idx / d as u64).or_default().push((out, "alu.out"));
        }
        opi += 1;
    }
    for (slot, vs) in &bus {
        if vs.iter().any(|(v, _)| *v != vs[0].0) {
            let names: Vec<&str> = vs.iter().map(|x| x.1).collect();
            return Some(format!("slot {slot}: bus participants disagree on its value ({names:?})"));
        }
    }
    None
}

/// Column class of an ALU cell (for finding keys): which operand / extra column it belongs to.
pub fn alu_col_class(col: usize, d: usize, lanes: usize) -> String {
    if col < lanes * 4 * d {
        let within = col % (4 * d);
        ["a", "b", "c", "out"][within / d].to_string()
    } else {
        "extra".to_string()
    }
}
