//! FRI-only pair (C07, PCS level): native `TwoAdicFriPcs::commit/open/verify` on seeded matrix
//! batches versus the in-circuit `verify_fri_circuit` (with MMCS checks on), wired as in
//! recursion/tests/fri.rs: commitments, opening points, claimed evaluations, α, βs and query-index
//! bits are circuit inputs. The challenges handed to the circuit are those of the honest
//! transcript; the native verifier re-derives its own. Shapes: several input batches, several
//! matrices per batch, 1..2 opening points per matrix, domain log sizes from 0.

use serde::{Deserialize, Serialize};

#[derive(Clone, Debug, Serialize, Deserialize)]
pub struct FriOnlyShape {
    pub universe: String,
    /// per batch: per matrix (log_size, width, number of opening points)
    pub batches: Vec<Vec<(usize, usize, usize)>>,
    pub fri: crate::rec::FriShape,
    pub seed: u64,
}

#[derive(Clone, Debug, Serialize, Deserialize, PartialEq, Eq)]
pub struct FFault {
    /// "none" | "eval" (claimed evaluation) | "proof" (numeric leaf of the serialized FRI proof) | "index_bit" | "cap" (commitment cap word)
    pub kind: String,
    /// for "proof": the leaf path; otherwise empty
    pub path: String,
    pub pos: usize,
}

pub struct FOut {
    pub native_ok: bool,
    pub circuit: Result<(), String>,
    pub circuit_panicked: bool,
    pub n_evals: usize,
    pub proof_leaves: Vec<String>,
    pub n_index_bits: usize,
    pub n_cap_words: usize,
}

macro_rules! fri_only_universe {
    ($modname:ident, $params:ident, $p2params:ty, $p2cfg:expr, $defperm:path) => {
        pub mod $modname {
            use p3_challenger::{CanObserve, CanSampleBits, FieldChallenger, GrindingChallenger};
            use p3_circuit::CircuitBuilder;
            use p3_circuit::ops::{generate_poseidon2_trace, generate_recompose_trace};
            use p3_commit::Pcs;
            use p3_field::coset::TwoAdicMultiplicativeCoset;
            use p3_field::{Field, PrimeCharacteristicRing};
            use p3_matrix::dense::RowMajorMatrix;
            use p3_recursion::Recursive;
            use p3_recursion::pcs::fri::{FriProofTargets, InputProofTargets, MerkleCapTargets, RecExtensionValMmcs, RecValMmcs, Witness as RecWitness, verify_fri_circuit};
            use p3_recursion::pcs::set_fri_mmcs_private_data;
            use p3_test_utils::$params::*;

            use super::{FFault, FOut, FriOnlyShape};
            use crate::core::pool::observe;
            use crate::tree;

            type RecVal = RecValMmcs<F, DIGEST_ELEMS, MyHash, MyCompress>;
            type RecExt = RecExtensionValMmcs<F, Challenge, DIGEST_ELEMS, RecVal>;
            type FriTargets = FriProofTargets<F, Challenge, RecExt, InputProofTargets<F, Challenge, RecVal>, RecWitness<F>>;
            type Domain = TwoAdicMultiplicativeCoset<F>;
            type Openings = Vec<Vec<(Domain, Vec<(Challenge, Vec<Challenge>)>)>>;
            type MyCommitment = <MyPcs as Pcs<Challenge, Challenger>>::Commitment;
            type MyProverData = <MyPcs as Pcs<Challenge, Challenger>>::ProverData;
            type MyProof = <MyPcs as Pcs<Challenge, Challenger>>::Proof;

            fn prefix(commitments: &[MyCommitment]) -> (Challenger, Vec<Challenge>) {
                let mut ch = Challenger::new($defperm());
                for c in commitments {
                    ch.observe(c.clone());
                }
                let zs = vec![ch.sample_algebra_element(), ch.sample_algebra_element()];
                (ch, zs)
            }

            pub fn run_case(shape: &FriOnlyShape, f: &FFault) -> Result<FOut, String> {
                let s = &shape.fri;
                let cfg = crate::rec::$modname::config(s);
                let pcs: &MyPcs = p3_uni_stark::StarkGenericConfig::pcs(&cfg);
                let mut rng = crate::core::prng::Rng::new(shape.seed, "fri-only", 0);
                // ---- prover
                let mut committed: Vec<(MyCommitment, MyProverData)> = Vec::new();
                for batch in &shape.batches {
                    let evals: Vec<(Domain, RowMajorMatrix<F>)> = batch
                        .iter()
                        .map(|&(log_size, width, _)| {
                            let domain = Domain::new(F::GENERATOR, log_size).ok_or("bad domain").unwrap();
                            let vals: Vec<F> = (0..(1usize << log_size) * width).map(|_| F::from_u64(1 + rng.below(<F as p3_field::PrimeField64>::ORDER_U64 - 1))).collect();
                            (domain, RowMajorMatrix::new(vals, width))
                        })
                        .collect();
                    committed.push(<MyPcs as Pcs<Challenge, Challenger>>::commit(pcs, evals));
                }
                let mut commitments: Vec<MyCommitment> = committed.iter().map(|(c, _)| c.clone()).collect();
                let (mut p_ch, zs) = prefix(&commitments);
                let open_data: Vec<_> = shape
                    .batches
                    .iter()
                    .zip(committed.iter())
                    .map(|(batch, (_, data))| (data, batch.iter().map(|&(_, _, k)| zs[..k].to_vec()).collect::<Vec<_>>()))
                    .collect();
                let (opened_values, proof0): (_, MyProof) = match observe(|| <MyPcs as Pcs<Challenge, Challenger>>::open(pcs, open_data, &mut p_ch)) {
                    Ok(x) => x,
                    Err(p) => return Err(format!("honest prover panicked: {p}")),
                };
                let mut openings: Openings = shape
                    .batches
                    .iter()
                    .zip(opened_values.iter())
                    .map(|(batch, bv)| {
                        batch
                            .iter()
                            .zip(bv.iter())
                            .map(|(&(log_size, _, k), mv)| (Domain::new(F::GENERATOR, log_size).unwrap(), (0..k).map(|j| (zs[j], mv[j].clone())).collect()))
                            .collect()
                    })
                    .collect();
                // ---- honest verifier transcript (challenges handed to the circuit)
                let (mut v, _) = prefix(&commitments);
                for b in &openings {
                    for (_, pts) in b {
                        for (_, vals) in pts {
                            for &x in vals {
                                v.observe_algebra_element(x);
                            }
                        }
                    }
                }
                let alpha: Challenge = v.sample_algebra_element();
                let mut betas = Vec::new();
                for (c, w) in proof0.commit_phase_commits.iter().zip(proof0.commit_pow_witnesses.iter()) {
                    v.observe(c.clone());
                    if !v.check_witness(s.commit_pow_bits, *w) {
                        return Err("honest commit PoW invalid".into());
                    }
                    betas.push(v.sample_algebra_element::<Challenge>());
                }
                for &c in &proof0.final_poly {
                    v.observe_algebra_element(c);
                }
                if let Some(q0) = proof0.query_proofs.first() {
                    for step in &q0.commit_phase_openings {
                        v.observe(F::from_usize(step.log_arity as usize));
                    }
                }
                if !v.check_witness(s.query_pow_bits, proof0.query_pow_witness) {
                    return Err("honest query PoW invalid".into());
                }
                let total_log_reduction: usize = proof0.query_proofs.first().map(|q| q.commit_phase_openings.iter().map(|st| st.log_arity as usize).sum()).unwrap_or(0);
                let log_max_height = total_log_reduction + s.log_blowup + s.log_final_poly_len;
                let mut index_bits: Vec<Vec<Challenge>> = (0..proof0.query_proofs.len())
                    .map(|_| {
                        let index: usize = v.sample_bits(log_max_height);
                        (0..log_max_height).map(|k| Challenge::from_bool((index >> k) & 1 == 1)).collect()
                    })
                    .collect();

                // ---- fault
                let tree0 = serde_json::to_value(&proof0).unwrap();
                let proof_leaves: Vec<String> = tree::numeric_leaves(&tree0)
                    .iter()
                    .filter(|p| !tree::is_meta_leaf(p) && !tree::path_class(p).contains("pow_witness"))
                    .map(|p| tree::path_str(p))
                    .collect();
                let n_evals: usize = openings.iter().flat_map(|b| b.iter()).flat_map(|(_, pts)| pts.iter()).map(|(_, v)| v.len()).sum();
                let n_index_bits = index_bits.iter().map(|b| b.len()).sum();
                let n_cap_words: usize = commitments.iter().map(|c| c.roots().len() * DIGEST_ELEMS).sum();
                let mut proof: MyProof = proof0;
                match f.kind.as_str() {
                    "none" => {}
                    "eval" => {
                        let mut k = f.pos;
                        'o: for b in openings.iter_mut() {
                            for (_, pts) in b.iter_mut() {
                                for (_, vals) in pts.iter_mut() {
                                    if k < vals.len() {
                                        vals[k] += Challenge::ONE;
                                        break 'o;
                                    }
                                    k -= vals.len();
                                }
                            }
                        }
                    }
                    "proof" => {
                        let mut t = tree0.clone();
                        let path = tree::numeric_leaves(&t).into_iter().find(|p| tree::path_str(p) == f.path).ok_or("no such leaf")?;
                        let old = tree::get(&t, &path).and_then(|x| x.as_u64()).unwrap_or(0);
                        *tree::get_mut(&mut t, &path).unwrap() = serde_json::json!(old.wrapping_add(1));
                        proof = serde_json::from_value(t).map_err(|e| format!("transport: {e}"))?;
                    }
                    "index_bit" => {
                        let mut k = f.pos;
                        for q in index_bits.iter_mut() {
                            if k < q.len() {
                                q[k] = Challenge::ONE - q[k];
                                break;
                            }
                            k -= q.len();
                        }
                    }
                    "cap" => {
                        let mut k = f.pos;
                        for c in commitments.iter_mut() {
                            let mut roots: Vec<[F; DIGEST_ELEMS]> = c.roots().to_vec();
                            let n = roots.len() * DIGEST_ELEMS;
                            if k < n {
                                roots[k / DIGEST_ELEMS][k % DIGEST_ELEMS] += F::ONE;
                                *c = roots.into();
                                break;
                            }
                            k -= n;
                        }
                    }
                    _ => return Err("unknown fault".into()),
                }

                // ---- native verifier (its own transcript)
                let native_ok = observe(|| {
                    let (mut ch, _) = prefix(&commitments);
                    let rounds = commitments.iter().cloned().zip(openings.iter().cloned()).collect();
                    <MyPcs as Pcs<Challenge, Challenger>>::verify(pcs, rounds, &proof, &mut ch).is_ok()
                })
                .unwrap_or(false);

                // ---- in-circuit verifier with the honest challenges
                let built = observe(|| {
                    let mut b = CircuitBuilder::<Challenge>::new();
                    b.enable_poseidon2_perm::<$p2params, _>(generate_poseidon2_trace::<Challenge, $p2params>, $defperm());
                    b.enable_recompose::<F>(generate_recompose_trace::<F, Challenge>);
                    let fri_targets = FriTargets::new(&mut b, &proof);
                    let alpha_t = b.public_input();
                    let betas_t: Vec<_> = betas.iter().map(|_| b.public_input()).collect();
                    let bits_t: Vec<Vec<_>> = index_bits.iter().map(|q| q.iter().map(|_| b.public_input()).collect()).collect();
                    let mut coms_t = Vec::new();
                    for (gi, mats) in openings.iter().enumerate() {
                        let cap_t = <MerkleCapTargets<F, DIGEST_ELEMS> as Recursive<Challenge>>::new(&mut b, &commitments[gi]);
                        let mut mats_t = Vec::new();
                        for (domain, pts) in mats {
                            let mut pts_t = Vec::new();
                            for (_, vals) in pts {
                                let z_t = b.public_input();
                                let vals_t: Vec<_> = vals.iter().map(|_| b.public_input()).collect();
                                pts_t.push((z_t, vals_t));
                            }
                            mats_t.push((*domain, pts_t));
                        }
                        coms_t.push((cap_t, mats_t));
                    }
                    let ops = verify_fri_circuit::<F, Challenge, RecExt, RecVal, RecWitness<F>, MerkleCapTargets<F, DIGEST_ELEMS>>(&mut b, &fri_targets, alpha_t, &betas_t, &bits_t, &coms_t, s.log_blowup, Some($p2cfg.into()))
                        .map_err(|e| format!("{e:?}"))?;
                    let c = b.build().map_err(|e| format!("{e:?}"))?;
                    Ok::<_, String>((c, ops))
                });
                let mk = |circuit: Result<(), String>, panicked: bool| FOut { native_ok, circuit, circuit_panicked: panicked, n_evals, proof_leaves: proof_leaves.clone(), n_index_bits, n_cap_words };
                let (circuit, ops) = match built {
                    Ok(Ok(x)) => x,
                    Ok(Err(e)) => return Ok(mk(Err(format!("build: {e}")), false)),
                    Err(p) => return Ok(mk(Err(format!("build panic: {p}")), true)),
                };
                let ran = observe(|| {
                    let mut pubs: Vec<Challenge> = FriTargets::get_values(&proof);
                    pubs.push(alpha);
                    pubs.extend(betas.iter().copied());
                    for q in &index_bits {
                        pubs.extend(q.iter().copied());
                    }
                    for (gi, mats) in openings.iter().enumerate() {
                        for entry in commitments[gi].roots() {
                            for &c in entry {
                                pubs.push(Challenge::from(c));
                            }
                        }
                        for (_, pts) in mats {
                            for (z, fz) in pts {
                                pubs.push(*z);
                                pubs.extend(fz.iter().copied());
                            }
                        }
                    }
                    let privs = <FriTargets as Recursive<Challenge>>::get_private_values(&proof);
                    let mut r = circuit.runner();
                    r.set_public_inputs(&pubs).map_err(|e| format!("{e:?}"))?;
                    r.set_private_inputs(&privs).map_err(|e| format!("{e:?}"))?;
                    set_fri_mmcs_private_data::<F, Challenge, ChallengeMmcs, MyMmcs, MyHash, MyCompress, DIGEST_ELEMS>(&mut r, &ops, &proof, $p2cfg).map_err(|e| format!("private data: {e}"))?;
                    r.run().map(|_| ()).map_err(|e| format!("{e:?}"))
                });
                Ok(match ran {
                    Ok(r) => mk(r, false),
                    Err(p) => mk(Err(format!("panic: {p}")), true),
                })
            }
            #[allow(dead_code)]
            fn _f<T: Field>() {}
        }
    };
}

fri_only_universe!(kb4, koala_bear_params, p3_poseidon2_circuit_air::KoalaBearD4Width16, p3_circuit::ops::Poseidon2Config::KOALA_BEAR_D4_W16, p3_koala_bear::default_koalabear_poseidon2_16);
fri_only_universe!(bb4, baby_bear_params, p3_poseidon2_circuit_air::BabyBearD4Width16, p3_circuit::ops::Poseidon2Config::BABY_BEAR_D4_W16, p3_baby_bear::default_babybear_poseidon2_16);

pub fn run_case(shape: &FriOnlyShape, f: &FFault) -> Result<FOut, String> {
    match crate::core::pool::observe(|| if shape.universe == "U-BB4" { bb4::run_case(shape, f) } else { kb4::run_case(shape, f) }) {
        Ok(r) => r,
        Err(p) => Err(format!("panic: {p}")),
    }
}
