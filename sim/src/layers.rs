//! Layer node (C17): the unified recursion API (`build_next_layer_circuit`, `build_next_layer_prep`,
//! `prove_next_layer`, `build_and_prove_aggregation_layer`) with the real `FriRecursionBackend`,
//! over KoalaBear D=4 and Goldilocks D=2. The `FriRecursionConfig` wrapper mirrors
//! recursion/examples/common/mod.rs.

use p3_air::{Air, AirBuilder, BaseAir, WindowAccess};
use p3_field::{Field, PrimeCharacteristicRing, PrimeField64};
use p3_matrix::dense::RowMajorMatrix;

macro_rules! layers_universe {
    ($modname:ident, $params:ident, $enable:ident, $p2params:ty, $p2cfg:expr, $defperm:path, $recmod:ident) => {
        pub mod $modname {
            use std::sync::Arc;

            use p3_circuit::ops::{generate_poseidon2_trace, generate_recompose_trace};
            use p3_circuit::{CircuitBuilder, CircuitRunner, NonPrimitiveOpId};
            use p3_commit::Pcs;
            use p3_lookup::logup::LogUpGadget;
            use p3_recursion::pcs::fri::{FriVerifierParams, InputProofTargets, MerkleCapTargets, RecValMmcs};
            use p3_recursion::pcs::{FriProofTargets, RecExtensionValMmcs, Witness, set_fri_mmcs_private_data};
            use p3_recursion::traits::RecursiveAir;
            use p3_recursion::{FriRecursionConfig, RecursionInput, RecursivePcs, VerificationError};
            use p3_test_utils::$params::*;
            use p3_uni_stark::{StarkGenericConfig, Val};

            use crate::rec::FriShape;

            pub type InnerFri = FriProofTargets<
                F,
                Challenge,
                RecExtensionValMmcs<F, Challenge, DIGEST_ELEMS, RecValMmcs<F, DIGEST_ELEMS, MyHash, MyCompress>>,
                InputProofTargets<F, Challenge, RecValMmcs<F, DIGEST_ELEMS, MyHash, MyCompress>>,
                Witness<F>,
            >;

            #[derive(Clone)]
            pub struct Cfg {
                pub config: Arc<MyConfig>,
                pub fri_verifier_params: FriVerifierParams,
                pub shape: FriShape,
            }

            impl Cfg {
                pub fn new(shape: FriShape) -> Self {
                    Self { config: Arc::new(crate::rec::$recmod::config(&shape)), fri_verifier_params: crate::rec::$recmod::fri_verifier_params(&shape), shape }
                }
            }

            impl core::ops::Deref for Cfg {
                type Target = MyConfig;
                fn deref(&self) -> &MyConfig {
                    &self.config
                }
            }

            impl StarkGenericConfig for Cfg {
                type Challenge = Challenge;
                type Challenger = Challenger;
                type Pcs = MyPcs;
                fn pcs(&self) -> &MyPcs {
                    self.config.pcs()
                }
                fn initialise_challenger(&self) -> Challenger {
                    self.config.initialise_challenger()
                }
            }

            impl FriRecursionConfig for Cfg
            where
                MyPcs: RecursivePcs<
                        Cfg,
                        InputProofTargets<F, Challenge, RecValMmcs<F, DIGEST_ELEMS, MyHash, MyCompress>>,
                        InnerFri,
                        MerkleCapTargets<F, DIGEST_ELEMS>,
                        <MyPcs as Pcs<Challenge, Challenger>>::Domain,
                    >,
            {
                type Commitment = MerkleCapTargets<F, DIGEST_ELEMS>;
                type InputProof = InputProofTargets<F, Challenge, RecValMmcs<F, DIGEST_ELEMS, MyHash, MyCompress>>;
                type OpeningProof = InnerFri;
                type RawOpeningProof = <MyPcs as Pcs<Challenge, Challenger>>::Proof;
                const DIGEST_ELEMS: usize = DIGEST_ELEMS;

                fn with_fri_opening_proof<'a, A, R>(prev: &RecursionInput<'a, Self, A>, f: impl FnOnce(&Self::RawOpeningProof) -> R) -> R
                where
                    A: RecursiveAir<Val<Self>, Self::Challenge, LogUpGadget>,
                {
                    match prev {
                        RecursionInput::UniStark { proof, .. } => f(&proof.opening_proof),
                        RecursionInput::BatchStark { proof, .. } => f(&proof.proof.opening_proof),
                    }
                }

                fn prepare_circuit_for_verification(&self, circuit: &mut CircuitBuilder<Challenge>) -> Result<(), VerificationError> {
                    circuit.$enable::<$p2params, _>(generate_poseidon2_trace::<Challenge, $p2params>, $defperm());
                    circuit.enable_recompose::<F>(generate_recompose_trace::<F, Challenge>);
                    Ok(())
                }

                fn pcs_verifier_params(
                    &self,
                ) -> &<MyPcs as RecursivePcs<
                    Cfg,
                    InputProofTargets<F, Challenge, RecValMmcs<F, DIGEST_ELEMS, MyHash, MyCompress>>,
                    InnerFri,
                    MerkleCapTargets<F, DIGEST_ELEMS>,
                    <MyPcs as Pcs<Challenge, Challenger>>::Domain,
                >>::VerifierParams {
                    &self.fri_verifier_params
                }

                fn set_fri_private_data(runner: &mut CircuitRunner<'_, Challenge>, op_ids: &[NonPrimitiveOpId], opening_proof: &Self::RawOpeningProof) -> Result<(), &'static str> {
                    set_fri_mmcs_private_data::<F, Challenge, ChallengeMmcs, MyMmcs, MyHash, MyCompress, DIGEST_ELEMS>(runner, op_ids, opening_proof, $p2cfg)
                }
            }

        }
    };
}
layers_universe!(kb, koala_bear_params, enable_poseidon2_perm, p3_poseidon2_circuit_air::KoalaBearD4Width16, p3_recursion::Poseidon2Config::KOALA_BEAR_D4_W16, p3_koala_bear::default_koalabear_poseidon2_16, kb4);
layers_universe!(gl, goldilocks_params, enable_poseidon2_perm_width_8, p3_circuit::ops::GoldilocksD2Width8, p3_recursion::Poseidon2Config::GOLDILOCKS_D2_W8, crate::rec::gl_default_perm, gl2);
pub use kb::Cfg;

/// Three-column AIR with one transition constraint; the two variants compile to verifier circuits
/// of equal size counters but different wiring (`c' = a*b + c` vs `c' = a*c + b`).
#[derive(Clone, Copy, Debug)]
pub struct PairAir {
    pub variant: u8,
}
impl<T: Field> BaseAir<T> for PairAir {
    fn width(&self) -> usize {
        3
    }
    fn main_next_row_columns(&self) -> Vec<usize> {
        // variant 2 is row-local: the prover does not open its trace on the next row
        if self.variant == 2 { vec![] } else { vec![2] }
    }
    fn num_periodic_columns(&self) -> usize {
        usize::from(self.variant == 3)
    }
    fn periodic_columns(&self) -> Vec<Vec<T>> {
        if self.variant == 3 { vec![vec![T::from_u64(3), T::from_u64(5)]] } else { vec![] }
    }
}
impl<AB: AirBuilder> Air<AB> for PairAir
where
    AB::F: Field,
{
    fn eval(&self, builder: &mut AB) {
        let main = builder.main();
        let l = main.current_slice();
        let (a, b, c) = (l[0], l[1], l[2]);
        if self.variant == 2 {
            builder.assert_eq(a.into() * b.into(), c);
            return;
        }
        let n = main.next_slice();
        let nc = n[2];
        let per: Option<AB::Expr> = (self.variant == 3).then(|| builder.periodic_values()[0].into());
        let mut t = builder.when_transition();
        match self.variant {
            0 => t.assert_eq(a.into() * b.into() + c.into(), nc),
            3 => t.assert_eq(a.into() * b.into() + c.into() + per.unwrap(), nc),
            _ => t.assert_eq(a.into() * c.into() + b.into(), nc),
        }
    }
}
impl PairAir {
    pub fn trace<F: PrimeField64>(&self, log_n: usize, seed: u64) -> RowMajorMatrix<F> {
        let n = 1usize << log_n;
        let mut rng = crate::core::prng::Rng::new(seed, "pair-air", self.variant as u64);
        let mut v = Vec::with_capacity(3 * n);
        let mut c = F::from_u64(rng.below(1000));
        for r in 0..n {
            let a = F::from_u64(rng.below(F::ORDER_U64));
            let b = F::from_u64(rng.below(F::ORDER_U64));
            if self.variant == 2 {
                c = a * b;
            }
            v.extend([a, b, c]);
            c = match self.variant {
                0 => a * b + c,
                3 => a * b + c + F::from_u64(if r % 2 == 0 { 3 } else { 5 }),
                _ => a * c + b,
            };
        }
        RowMajorMatrix::new(v, 3)
    }
}

#[allow(dead_code)]
pub fn field_marker<T: Field>() {}
