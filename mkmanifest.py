#!/usr/bin/env python3
"""Regenerates MANIFEST.json from the table below (kept in one place so it stays valid)."""
import json, subprocess

HOOK_COMMITS = ["989b558", "be0faaf"]

CLAIMED = {
 "C02": dict(level="exploration", ref="DESIGN §5 C02",
   text="Seeded builder-call histories are replayed into the real CircuitBuilder (each under several hash-iteration orders chosen by the simulator) and into an independent reference interpreter; every tagged expression value and the run outcome are compared, satisfying and perturbed inputs. Sampling over programs, not a proof; the hash-order seam and the history-vs-reference-model structure are what the technique contributes.",
   note="Trusts the reference interpreter (sim/src/gprog.rs ref_eval) as the meaning of expressions and p3_field arithmetic. Universes U-KB4, U-BB4 (D=4).",
   technique="deterministic simulation: seeded builder-call histories vs reference model under a seeded hash-order scheduler"),
 "C03": dict(level="exploration", ref="DESIGN §5 C03",
   text="The prover node is byzantine: it discards the honest runner and builds a witness assignment that obeys only the emitted operation list (no runner side checks, free MulAdd product slot, free hint outputs). For seeded programs with perturbed inputs the ops-only evaluator decides the emitted relations and the reference interpreter decides the source program on that same assignment; a disagreement is confirmed end to end by proving the forged trace with the real prover and having the real verifier accept it.",
   note="One candidate assignment per input (search, not a decision procedure for OpsSat). Reported: counter-examples confirmed by an accepted forged proof, and counter-examples in circuits that key generation refuses (no proof exists either way; the property is stated on the operation list alone). The product slot of a fused MulAdd that nothing else mentions is not compared. Trusts ref_eval and sim/src/opsat.rs.",
   technique="deterministic simulation with a byzantine prover: forged witness that satisfies only the emitted ops, real prove + verify"),
 "C09": dict(level="exploration", ref="DESIGN §5 C09",
   text="Invariant monitor attached to the compiler node: for every circuit compiled in seeded runs (every connect-aliasing pattern between constants, public/private inputs, hint outputs and ALU outputs; lane/packing swarm; seeded hash order) a bus accountant recomputes creators and readers per witness slot from the final preprocessed columns and checks one creator, balanced multiplicities and no floating operand; cross-checked against the real LogUp bus (an honest proof of a circuit the accountant calls balanced must verify).",
   note="Accountant covers the primitive tables (Const/Public/ALU 13-column layout); circuits with non-primitive tables are checked through the real bus only (C05/C06 circuits). Known findings are listed in known_findings.json.",
   technique="deterministic simulation: invariant monitored on every compiled circuit of seeded runs, cross-checked by real proofs"),
 "C10": dict(level="exploration", ref="DESIGN §5 C10",
   text="Fault-free control arm of the prover/verifier simulation: seeded satisfiable programs go through build, run, key generation, proving and the commitment-binding verifier node under a configuration swarm (lanes, Horner packing K, minimum height) and seeded hash order; every failing stage is keyed by a structural explanation and minimised.",
   note="Eight circuit-proof universes (KB/BB D4, KB D4 with the hiding PCS, BB binomial D5, KB quintic D5, KB D8, KB D1, Goldilocks D2). Generator only emits programs whose inputs satisfy them (checked by the reference interpreter). Verifier node = verify_all_tables + equality of preprocessed commitment with the verifier's own compilation.",
   technique="deterministic simulation: fault-free control arm of the byzantine-prover simulator under configuration swarm and seeded hash order"),
 "C18": dict(level="exploration", ref="DESIGN §5 C18",
   text="The only scheduler in this codebase, hash iteration order, is behind a seam (patched foldhash): every corpus item is compiled, key-generated, run and proven under N seeded iteration orders in-process and in M fresh processes with natural hasher randomness; all digests (ops, numbering, maps, preprocessed columns, table order, degrees, commitment, traces, proof bytes) must be equal. A failing item is minimised and replayed from (program, seedA, seedB).",
   note="rayon is compiled out (thread scheduling not controlled). Global foldhash seed is constant in the simulator build; per-hasher seeds come from the run's stream.",
   technique="deterministic simulation: seeded scheduler over hash-iteration orders + fresh-process replays, digest equality"),
 "C01": dict(level="fault_enumeration", ref="DESIGN §5 C01",
   text="Prover, transport and both verifiers run in one process: an honest uni-STARK or batch-STARK proof is serialized to a tree, every numeric leaf and every public value is corrupted one fault at a time (five fault kinds), and the native verifier and the in-circuit verifier (fixed circuit for value leaves, circuit rebuilt from the received proof for usize leaves) must agree, over a swarm of proof shapes and FRI parameter sets.",
   note="Native p3 verifiers are the oracle. Panics count as reject here (they are C15's observable). Universes (per twelve runs): U-KB4 / U-BB4 with TwoAdicFriPcs (2 + 3), KoalaBear with HidingFriPcs over the plain MMCS and over the salted MerkleTreeHidingMmcs (1 + 1), custom AIRs (global and local lookups, preprocessed columns with / without next-row access, periodic columns, verifier public values, degree-5 constraints, no-next-row tables) proven with raw p3_batch_stark / p3_uni_stark under TwoAdicFriPcs (2) and HidingFriPcs (1), Goldilocks degree-2 (2); arity-2 MMCS.",
   technique="deterministic simulation with message-fault enumeration between prover and two verifier nodes"),
 "C04": dict(level="fault_enumeration", ref="DESIGN §5 C04",
   text="Byzantine prover at matrix depth through hook H2: after an honest run every cell of every active row (and one padding row) of every primitive table is altered, or an operand is altered and the row re-solved locally, or rows are swapped, or a constant is substituted and propagated; the real prover commits and proves the forged matrices and the commitment-binding verifier decides. Ground truth (operation relations over the extension field, constants, agreement of all bus participants) is computed per case; accepted and invalid is a violation. Fault-free control arm first.",
   note="Primitive tables (Const, Public, ALU incl. single-step and packed HornerAcc rows decoded from the ALU preprocessed matrix); non-primitive tables: single-cell faults on the committed Poseidon2 / recompose tables of Merkle-opening circuits (arity 2, arity 4, raw add_poseidon2_perm paths, the compact D=1 layout inside the quintic circuit, arity 2 over the Poseidon1 table) with verdicts expected from the documented row layout, plus direction-input flips, direction-bit flips with re-summed index accumulators and path transplants; sponge arm: a faulty witness generator (hook H3) changes a not-witness-fed limb of an add_hash_slice row, re-executes, publishes the resulting digest and proves it (extension-field layout KB/BB D4 and the compact D=1 layout). Eight universes (KB/BB D4, BB binomial D5, KB quintic D5, KB D8, KB D1, Goldilocks D2). Horner-specific forges: chain restarted from a forged accumulator, packed row out forged with intermediates solved backwards. Release profile so that p3's debug constraint checks do not pre-empt the prover. Known findings (unconstrained Const values; arity-2 Merkle rows tied to nothing but the root) listed in known_findings.json.",
   technique="deterministic simulation with a byzantine prover: exhaustive single-cell faults on committed matrices, real prove + verify, computed ground truth"),
 "C11": dict(level="fault_enumeration", ref="DESIGN §5 C11",
   text="Table-local half of C04 at the constraint level: the same cell faults on matrices captured from the real prover are evaluated with p3's DebugConstraintBuilder against each table's AIR (no proof), and compared with an independent row-relation evaluator that multiplies in the real extension field; relation fails and constraints vanish, or an honest row fails constraints, is a violation.",
   note="Const/Public/ALU (add, mul, bool, mul_add, Horner single-step and packed arities 2..K) tables in seven universes (binomial D2/D4/D5/D8, quintic trinomial, base field) with lane and Horner-K swarm; Poseidon2 / Poseidon1 / recompose table rows are covered end to end (prove + verify) by the row-level faults of the NPO arm (five families, rotating) on a thin sample of runs. BoolCheck's out = a tie is a bus matter and checked end to end in C04.",
   technique="deterministic simulation: exhaustive cell-fault enumeration on prover matrices with a constraint-level observer and relation oracle"),
 "C07": dict(level="fault_enumeration", ref="DESIGN §5 C07",
   text="Same prover -> transport -> {native, in-circuit} simulation as C01 with the fault space focused on what FRI consumes (commitments, claimed evaluations, the whole opening proof incl. per-step log_arity) and all five fault kinds on every such leaf, over a FRI-oriented shape swarm: mixed matrix heights down to single-row tables, arity schedules up to 2^4 incl. mixed, blow-up 1-3, final polynomial length 1-4, 1-3 queries, PoW bits 0-8, cap height 0-2.",
   note="Arm (a): FRI through the PCS-level in-circuit verifier inside the STARK verifiers (challenges derived in-circuit), plain and hiding (HidingFriPcs, plain and salted MMCS) universes. Arm (b): verify_fri_circuit with honest externally supplied challenges against native pcs.verify on multi-batch / multi-point / height-0 shapes. Arity-2 MMCS.",
   technique="deterministic simulation with message-fault enumeration focused on the FRI opening proof, parameter swarm"),
 "C08": dict(level="fault_enumeration", ref="DESIGN §5 C08",
   text="MMCS-only pair: native MerkleTreeMmcs commit/open/verify versus in-circuit verify_batch_circuit on seeded matrix batches (equal and mixed heights, widths not aligned to the rate, cap height 0-2); honest openings at every index, then every opened value, sibling digest word, index bit and cap entry word altered one at a time; verdicts must agree.",
   note="Arity-2 trees over KoalaBear/BabyBear width-16 Poseidon2 and arity-4 trees over KoalaBear width-32 Poseidon2 (verify_batch_circuit_arity4); salted MerkleTreeHidingMmcs binary trees over KoalaBear (every salt element faulted); arity-2 trees over the KoalaBear width-16 Poseidon1 permutation (Poseidon1 table); base-field leaves (extension-field leaves are exercised through the FRI commit-phase openings of C01/C07). Known finding (arity-4 cap layer ambiguity) in known_findings.json.",
   technique="deterministic simulation with exhaustive single-fault enumeration on Merkle openings, native verifier as oracle"),
 "C15": dict(level="fault_enumeration", ref="DESIGN §5 C15",
   text="Short, torn and lost parts of a message: every sequence node of the serialized proof is shortened, lengthened, emptied or made ragged, every optional part is flipped, every usize leaf is set to +1, -1, 0 and 2^62; each mutant that still deserializes is handed to the verification-circuit builder in a crash-isolated, memory-limited worker process; a panic or abort is a violation, and if the builder returns Ok the built circuit is run on the mutant and must agree with the native verdict on the mutant (a circuit that checks less than the native verifier is a violation).",
   note="Single structural faults, exhaustive per sampled shape (uni-STARK Fibonacci and circuit batch proofs, FRI parameter swarm capped at 2 queries). Worker memory limit 8 GiB. Known findings (query count not in verifier params; 2^62 counts) in known_findings.json; the other panic sites found were repaired (see fixed entries).",
   technique="deterministic simulation with structural message faults, crash-isolated workers, native verdict as oracle"),
 "C16": dict(level="fault_enumeration", ref="DESIGN §5 C16",
   text="Population of honest proofs (primitive-only; with Poseidon2 and recompose tables) and invalid-trace proofs made by the byzantine prover; the transport sets every metadata field outside `proof` to every value of a small well-formed set (plus option flips, string swaps, list swap/drop/duplicate, sampled pairs) and round-trips every member through postcard and JSON; no faulted invalid-trace proof may be accepted, metadata contradicting the verifier's field parameters must be rejected, round trips must preserve verdict and content.",
   note="Seven universes (KB/BB D4 with non-primitive tables; BB binomial D5, KB quintic D5, KB D8, KB D1, Goldilocks D2 primitive-only); population includes a multiplication-free circuit whose trace is valid under every reduction polynomial. A panicking native verifier counts as a rejection for this property (counted in the evidence, thousands of cases, mostly stark_common / packing fields).",
   technique="deterministic simulation with metadata-fault enumeration and serialization transport"),
 "C17": dict(level="exploration", ref="DESIGN §5 C17",
   text="History-dependent durable state: call histories over a growing pool of proofs and cache slots (NEXT / AGG with cache None, Build, Reuse), every output verified natively and fed to later steps; the reference model is the uncached twin of each call; stale-state faults offer a cache prepared for another circuit, including a near-miss pair with identical size counters; a stale offer must be refused or recomputed (never panic, never an unverifiable proof, never silently the other circuit's verifying data) and later steps must still succeed.",
   note="KoalaBear D=4 and Goldilocks D=2 (one history in four) with the real FriRecursionBackend for the respective extension degree; FriRecursionConfig wrapper copied from the repository's examples. Known findings (stale caches) in known_findings.json.",
   technique="deterministic simulation: seeded call histories with stale-state faults against an uncached reference twin"),
 "C19": dict(level="fault_enumeration", ref="DESIGN §5 C19",
   text="Input-fault plans (withheld, short, long, duplicated, conflicting inputs and private data) on circuits whose inputs are consumed by ALU ops, hints, the recompose table, Poseidon2 permutations and Merkle checks, executed by two builds of the same harness that differ only in debug-assertions, each in a crash-isolated worker; outcome streams (ok + trace digest, error class, panic, abort) must be identical, faults that must fail must not report success, and a run that succeeds although inputs were withheld must reproduce the fault-free control's traces.",
   note="No Miri arm: agreement of the two builds is evidence, not proof, of absence of undefined behaviour on the unchecked path.",
   technique="deterministic simulation with input-fault enumeration on twin build configurations, crash-isolated workers"),
 "C05": dict(level="exploration", ref="DESIGN §5 C05",
   text="Stateful component driven through seeded operation histories and compared step by step with a small executable reference model (the native DuplexChallenger) in seven configurations (incl. the base-field challenger inside the KoalaBear quintic circuit), recompose table on/off, seeded hash order; a failing history is minimised to a few operations.",
   note="p3_challenger::DuplexChallenger is the reference model; observed values are public inputs so the builder cannot fold them.",
   technique="deterministic simulation: seeded operation histories vs executable reference model"),
 "C06": dict(level="fault_enumeration", ref="DESIGN §5 C06",
   text="Byzantine prover at witness-generation depth: the permutation closure deviates on one call in its non-exposed (capacity) or exposed (rate) output lanes, or a decomposition hint deviates, or (hook H3) one limb of the private, not witness-fed part of a permutation's input state (zero padding, chained rate / capacity) is altered; the rest of the run is honest, the forged traces go through the real prover and verifier; an accepted proof whose sampled challenges differ from the native transcript is a violation. A fault-free control arm runs first.",
   note="U-KB4/U-BB4 extension-degree challenger and the base-field (D=1) challenger inside the KoalaBear quintic circuit, with Poseidon2 and recompose tables; every sampled wire is read by an ALU row so that its run-time value is a committed cell. Known findings (capacity deviation accepted in D=4) are listed in known_findings.json.",
   technique="deterministic simulation with a byzantine prover (deviating permutation / hints), real prove + verify"),
 "C12": dict(level="fault_enumeration", ref="DESIGN §5 C12",
   text="Byzantine hint executors: binary decomposition emitting the bits of x + p, extension decomposition moving mass between coefficients, inside gadget circuits and challenger histories; forged traces are proven and verified; an accepted proof with a non-canonical decomposition is a violation.",
   note="Only decompositions reachable through Op::Hint are faulted: at witness-generation depth (deviating hint executors) and at matrix depth (hook H2: a hinted bit / coefficient reassigned in every committed cell of its slot, nothing recomputed). Known findings listed in known_findings.json.",
   technique="deterministic simulation with byzantine hint executors, real prove + verify"),
 "C14": dict(level="fault_enumeration", ref="DESIGN §5 C14",
   text="For every proof shape of C01's swarm: packed lengths equal the circuit's, every value leaf of the serialized proof must move at least one packed position (leaf to position map), and corrupting any single position of the packed public or private vector must make the circuit unsatisfiable.",
   note="Merkle sibling digests travel as private data and are covered by C01/C08. PoW-witness positions are compared natively in C01 instead.",
   technique="deterministic simulation with per-position message faults on the packed wire format"),
}

NOT_YET = {}
NA = {
 "C13": "pure function of (symbolic DAG, assignment): no schedule, fault, party or persistent state for a simulator to own; deciding it is differential input generation, a different technique (DESIGN §7)",
 "C20": "pure functions of (size parameters, point): nothing for deterministic simulation to schedule or fault; exercised indirectly by C01's shape swarm but not decided by it (DESIGN §7)",
}
ALL = ["C%02d" % i for i in range(1, 21)]

def main():
    checks = []
    for pid in ALL:
        if pid in CLAIMED:
            c = CLAIMED[pid]
            checks.append({
                "property_id": pid,
                "quick_cmd": f"./check {pid} --tier quick",
                "thorough_cmd": f"./check {pid} --tier thorough",
                "evidence_file": f"/verif/evidence/{pid}.json",
                "replay_cmd_template": f"./check {pid} --replay {{path}}",
                "engine": "psim",
                "level_claimed": {"category": c["level"], "text": c["text"], "design_ref": c["ref"]},
                "level_note": c["note"],
                "technique": c["technique"],
            })
    na = []
    for pid in ALL:
        if pid in CLAIMED:
            continue
        if pid in NA:
            na.append({"property_id": pid, "reason": NA[pid]})
        else:
            na.append({"property_id": pid, "reason": NOT_YET.get(pid, "not claimed yet: the check for this property is designed (DESIGN §5) but not built at this commit")})
    m = {
        "version": 1,
        "setup_cmd": "cd sim && cargo build --release --offline && cargo build --profile relchk --offline",
        "hooks": {
            "guard": "p3r-verif (cargo feature on p3-circuit-prover / p3-circuit)",
            "enable": "the simulator's Cargo.toml depends on /repo's crates by path with features=[\"p3r-verif\"]; /repo's own builds never enable it",
            "baseline_off_cmd": "cd /repo && cargo nextest run --workspace --no-fail-fast --test-threads 8 --offline || cargo test --workspace --no-fail-fast --offline",
            "source_commits": HOOK_COMMITS,
            "add_only": True,
        },
        "engines": [{
            "name": "psim",
            "path": "sim/",
            "serves_properties": sorted(CLAIMED.keys()),
            "kind_free_text": "seeded single-process deterministic simulation of compiler -> prover -> transport -> verifier (-> next layer) with a hash-iteration-order seam (patched foldhash), fault plans (message, prover, state, input faults), reference models as oracles, replay files",
        }],
        "checks": checks,
        "not_applicable": na,
        "notes": "VERIF_SEED selects the run (default 1). Exit 0 held, 1 violation (VIOLATION line + replay file), 2 harness error. Known findings: known_findings.json.",
    }
    json.dump(m, open("MANIFEST.json", "w"), indent=1)
    print("claimed:", sorted(CLAIMED.keys()))

main()
