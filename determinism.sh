#!/bin/bash
# Determinism campaign: every property, several VERIF_SEED values, two worker counts, fresh
# processes; the merged run digest (a function of every run's counters and violations, merged in
# run-index order) must be identical. Usage: ./determinism.sh [seeds...]   (default: 1 2 3)
cd "$(dirname "$0")"
export VERIF_ROOT="$(pwd)"
seeds="${@:-1 2 3}"
(cd sim && cargo build --release --offline >/dev/null 2>&1 && cargo build --profile relchk --offline >/dev/null 2>&1) || { echo "build failed"; exit 2; }
fail=0
for id in C02 C03 C04 C05 C06 C08 C09 C10 C11 C12 C14 C16 C17 C18 C19 C15 C01 C07; do
  for s in $seeds; do
    a=$(VERIF_SEED=$s VERIF_WORKERS=16 sim/target/release/psim $id noevidence=1 2>/dev/null | grep -o "digest=[0-9a-f]*" | tail -1)
    b=$(VERIF_SEED=$s VERIF_WORKERS=3 sim/target/release/psim $id noevidence=1 2>/dev/null | grep -o "digest=[0-9a-f]*" | tail -1)
    if [ "$a" = "$b" ] && [ -n "$a" ]; then echo "$id seed=$s OK $a"; else echo "$id seed=$s DIVERGED 16w:$a 3w:$b"; fail=1; fi
  done
done
exit $fail
