#!/bin/bash
# Determinism campaign: every property, several VERIF_SEED values, two worker counts, fresh
# processes; the merged run digest (a function of every run's counters and violations, merged in
# run-index order) must be identical, and no run may report an unknown violation.
# Usage: ./determinism.sh [seeds...]   (default: 1 2 3); output also goes to determinism.last.txt
cd "$(dirname "$0")"
export VERIF_ROOT="$(pwd)"
seeds="${@:-1 2 3}"
PSIM="${PSIM:-sim/target/release/psim}"
if [ "$PSIM" = "sim/target/release/psim" ]; then (cd sim && cargo build --release --offline >/dev/null 2>&1 && cargo build --profile relchk --offline >/dev/null 2>&1) || { echo "build failed"; exit 2; }; fi
fail=0
out=determinism.last.txt
echo "# determinism campaign $(date -u +%Y-%m-%dT%H:%MZ), seeds: $seeds, workers 16 vs 3" > $out
for id in C02 C03 C04 C05 C06 C08 C09 C10 C11 C12 C14 C16 C17 C18 C19 C15 C01 C07; do
  for s in $seeds; do
    a=$(VERIF_SEED=$s VERIF_WORKERS=16 $PSIM $id noevidence=1 2>/dev/null | tail -1)
    ra=$?
    b=$(VERIF_SEED=$s VERIF_WORKERS=3 $PSIM $id noevidence=1 2>/dev/null | tail -1)
    da=$(echo "$a" | grep -o "digest=[0-9a-f]*"); db=$(echo "$b" | grep -o "digest=[0-9a-f]*")
    ua=$(echo "$a" | grep -o "unknown_violations=[0-9]*")
    if [ "$da" = "$db" ] && [ -n "$da" ]; then line="$id seed=$s OK $da $ua"; else line="$id seed=$s DIVERGED 16w:$da 3w:$db"; fail=1; fi
    echo "$line"; echo "$line" >> $out
    case "$ua" in unknown_violations=0) ;; *) fail=1;; esac
  done
done
exit $fail
